#!/bin/sh
# usage: mutcheck.sh <patch.diff> <property> [wall_s]  -- apply a seeded change to /repo, run the quick check, revert.
P=$1; PROP=$2; WALL=${3:-60}
cd /repo || exit 2
git apply "$P" || { echo "patch does not apply"; exit 2; }
cd /verif
VERIF_WALL_S=$WALL ./check $PROP quick > /tmp/mutcheck.$$.log 2>&1
RC=$?
git -C /repo checkout -- .
tail -${TAILN:-6} /tmp/mutcheck.$$.log
rm -f /tmp/mutcheck.$$.log
echo "exit=$RC"

#!/bin/sh
# usage: mutcheck.sh <abs patch.diff> <property> [wall_s]
# Runs the quick check of <property> against a scratch worktree of /repo HEAD carrying the seeded change.
# /repo itself and /verif/evidence are not touched (VERIF_MUT_REPO is a development-only override that the
# registered commands never set), so it can run next to a normal check. Exit status of the check is printed.
P=$1; PROP=$2; WALL=${3:-60}
WT=/tmp/mutcheck-wt.$$
B=/verif/build/mut.$$
git -C /repo worktree add --detach $WT HEAD >/dev/null 2>&1 || { echo "worktree failed"; exit 2; }
( cd $WT && git apply "$P" ) || { echo "patch does not apply"; git -C /repo worktree remove --force $WT; exit 2; }
cd /verif
VERIF_MUT_REPO=$WT VERIF_MUT_BUILD=$B VERIF_WALL_S=$WALL ./check $PROP quick > $B.log 2>&1
RC=$?
git -C /repo worktree remove --force $WT
grep -m1 "^rule:" $B.log; tail -${TAILN:-6} $B.log | grep -v "^rule:"
if [ -n "$KEEP_REPLAY" ] && ls $B/replays/*.json >/dev/null 2>&1; then mkdir -p $KEEP_REPLAY; cp $B/replays/*.json $KEEP_REPLAY/; fi
rm -rf $B $B.log
echo "exit=$RC"

package runtime

import (
	"internal/runtime/atomic"
	_ "unsafe"
)

// Deterministic-simulation stream: when simOn != 0, select poll order, run-queue
// randomisation and map seeds/iteration offsets are drawn from this single state.
var simOn uint32
var simState uint64
var simDraws uint64
var simMode uint32 // 0: always 0 (canonical), 1: PRNG

//go:nosplit
func simrand64() uint64 {
	simDraws++
	if simMode == 0 {
		return 0
	}
	simState += 0x9e3779b97f4a7c15
	z := simState
	z = (z ^ (z >> 30)) * 0xbf58476d1ce4e5b9
	z = (z ^ (z >> 27)) * 0x94d049bb133111eb
	return z ^ (z >> 31)
}

//go:nosplit
func simrandn(n uint32) uint32 {
	return uint32((uint64(uint32(simrand64()>>16)) * uint64(n)) >> 32)
}

//go:linkname simSeed
func simSeed(on bool, mode uint32, seed uint64) {
	if on {
		atomic.Store(&simOn, 1)
	} else {
		atomic.Store(&simOn, 0)
	}
	simMode = mode
	simState = seed
	simDraws = 0
}

//go:linkname simDrawCount
func simDrawCount() uint64 { return simDraws }

//go:linkname simBubbleRun
func simBubbleRun(f func()) { synctestRun(f) }

//go:linkname simBubbleWait
func simBubbleWait() { synctestWait() }

var simYieldN uint32 // 0 = never; else yield with probability 1/N at blocking channel ops, selects and mutex locks

//go:linkname simSetYield
func simSetYield(n uint32) { simYieldN = n }

var simYields uint64

//go:linkname simYieldCount
func simYieldCount() uint64 { return simYields }

func simMaybeYield() {
	if simOn == 0 || simYieldN == 0 {
		return
	}
	gp := getg()
	if gp.bubble == nil || gp.m.curg != gp || gp.m.locks != 0 || gp.m.preemptoff != "" {
		return
	}
	if simrandn(simYieldN) == 0 {
		simYields++
		goyield()
	}
}

//go:linkname sync_simMaybeYield internal/sync.runtime_simMaybeYield
func sync_simMaybeYield() { simMaybeYield() }

//go:linkname sync_simMaybeYieldRW sync.runtime_simMaybeYield
func sync_simMaybeYieldRW() { simMaybeYield() }

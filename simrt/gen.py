#!/usr/bin/env python3
"""Generate the seeded-runtime overlay for go1.26.8 (see DESIGN.md 2.1).
usage: gen.py <outdir> <repo> <exportfile>
Writes patched copies of a few runtime files into <outdir>/rt and <outdir>/overlay.json.
Every patch is anchored on an exact source line; a missing anchor aborts with exit 2."""
import json, os, sys

GOROOT = "/opt/veriftools/go1.26.8"
out, repo, export = sys.argv[1], sys.argv[2], sys.argv[3]
here = os.path.dirname(os.path.abspath(__file__))
rt = os.path.join(out, "rt")
os.makedirs(rt, exist_ok=True)

def die(msg):
    sys.stderr.write("simrt/gen.py: " + msg + "\n")
    sys.exit(2)

def patch(rel, edits, name=None):
    src = os.path.join(GOROOT, "src", rel)
    text = open(src).read()
    for (anchor, repl, count) in edits:
        n = text.count(anchor)
        if n != count:
            die("%s: anchor %r found %d times, expected %d" % (rel, anchor, n, count))
        text = text.replace(anchor, repl)
    dst = os.path.join(rt, name or rel.replace("/", "_"))
    open(dst, "w").write(text)
    return src, dst

repl = {}
def add(rel, edits, name=None):
    s, d = patch(rel, edits, name)
    repl[s] = d

add("runtime/select.go", [
    ("\tj := cheaprandn(uint32(norder + 1))\n".replace("\tj", "\t\tj"),
     "\t\tvar j uint32\n\t\tif simOn != 0 {\n\t\t\tj = simrandn(uint32(norder + 1))\n\t\t} else {\n\t\t\tj = cheaprandn(uint32(norder + 1))\n\t\t}\n", 1),
    ("\t// NOTE: In order to maintain a lean stack size, the number of scases\n",
     "\tif block {\n\t\tsimMaybeYield()\n\t}\n\t// NOTE: In order to maintain a lean stack size, the number of scases\n", 1),
])
add("runtime/proc.go", [
    ("const forcePreemptNS = 10 * 1000 * 1000 // 10ms", "const forcePreemptNS = 3600 * 1000 * 1000 * 1000 // sim: 1h", 1),
    ("\tif randomizeScheduler && next && randn(2) == 0 {",
     "\tif (randomizeScheduler && next && simOn == 0 && randn(2) == 0) || (next && simOn != 0 && simrandn(2) == 0) {", 1),
])
add("runtime/rand.go", [
    ("\tglobalRand.state.Init(*seed)\n",
     "\t// sim: fixed process seed so hash keys (aeskeysched/hashkey) are the same in every process\n\tfor i := range seed {\n\t\tseed[i] = byte(0x5a + i)\n\t}\n\tglobalRand.state.Init(*seed)\n", 1),
    ("func maps_rand() uint64 {\n", "func maps_rand() uint64 {\n\tif simOn != 0 {\n\t\treturn simrand64()\n\t}\n", 1),
    ("\tmp := getg().m\n\tc := &mp.chacha8\n\tfor {\n\t\t// Note: c.Next is marked nosplit,",
     "\tif simOn != 0 {\n\t\tif gp := getg(); gp.bubble != nil && gp.m.curg == gp {\n\t\t\treturn simrand64()\n\t\t}\n\t}\n\tmp := getg().m\n\tc := &mp.chacha8\n\tfor {\n\t\t// Note: c.Next is marked nosplit,", 1),
])
add("runtime/time.go", [
    ("\t\t\tt.rand = cheaprand()\n",
     "\t\t\tif simOn != 0 {\n\t\t\t\tt.rand = uint32(simrand64() >> 32)\n\t\t\t} else {\n\t\t\t\tt.rand = cheaprand()\n\t\t\t}\n", 1),
])
add("runtime/runtime2.go", [
    ("var isIdleInSynctest = [len(waitReasonStrings)]bool{\n",
     "var isIdleInSynctest = [len(waitReasonStrings)]bool{\n\t// sim: the whole process is one bubble, so a goroutine waiting for a sync.Mutex/RWMutex\n\t// can only be waiting for another bubbled goroutine; treat it as durably blocked.\n\twaitReasonSyncMutexLock:   true,\n\twaitReasonSyncRWMutexRLock: true,\n\twaitReasonSyncRWMutexLock:  true,\n", 1),
])
add("runtime/chan.go", [
    ("func chansend(c *hchan, ep unsafe.Pointer, block bool, callerpc uintptr) bool {\n",
     "func chansend(c *hchan, ep unsafe.Pointer, block bool, callerpc uintptr) bool {\n\tif block {\n\t\tsimMaybeYield()\n\t}\n", 1),
    ("func chanrecv(c *hchan, ep unsafe.Pointer, block bool) (selected, received bool) {\n",
     "func chanrecv(c *hchan, ep unsafe.Pointer, block bool) (selected, received bool) {\n\tif block {\n\t\tsimMaybeYield()\n\t}\n", 1),
])
add("internal/sync/mutex.go", [
    ("func (m *Mutex) Lock() {\n", "func (m *Mutex) Lock() {\n\truntime_simMaybeYield()\n", 1),
    # Mutex fairness ("starvation mode" after 1 ms of *real* waiting) cannot be left to the wall clock when
    # time is simulated: a waiter would be barged for ever by a goroutine that re-locks in the same fake
    # instant. Hand-off is made FIFO after the first failed attempt (a legal behaviour of sync.Mutex).
    ("\tstarvationThresholdNs = 1e6\n", "\tstarvationThresholdNs = -1 // sim\n", 1),
])
# RWMutex.RLock is a scheduling point too: check-then-act splits across two read-locked sections are only
# visible if a writer can run between them
add("sync/rwmutex.go", [
    ("func (rw *RWMutex) RLock() {\n", "func (rw *RWMutex) RLock() {\n\truntime_simMaybeYield()\n", 1),
])
add("sync/runtime.go", [
    ("package sync\n", "package sync\n", 1),
])
add("internal/sync/runtime.go", [
    ("package sync\n", "package sync\n", 1),
])
# append the linkname declaration to internal/sync/runtime.go
p = repl[os.path.join(GOROOT, "src", "internal/sync/runtime.go")]
t = open(p).read()
if "import _ \"unsafe\"" not in t and "\"unsafe\"" not in t:
    die("internal/sync/runtime.go: no unsafe import")
open(p, "a").write("\n//go:linkname runtime_simMaybeYield\nfunc runtime_simMaybeYield()\n")
p = repl[os.path.join(GOROOT, "src", "sync/runtime.go")]
t = open(p).read()
if "\"unsafe\"" not in t:
    die("sync/runtime.go: no unsafe import")
open(p, "a").write("\n//go:linkname runtime_simMaybeYield\nfunc runtime_simMaybeYield()\n")

zs = os.path.join(rt, "zsim.go")
open(zs, "w").write(open(os.path.join(here, "zsim.go")).read())
repl[os.path.join(GOROOT, "src", "runtime/zsim.go")] = zs
repl[os.path.join(repo, "zz_verif_export.go")] = export
json.dump({"Replace": repl}, open(os.path.join(out, "overlay.json"), "w"), indent=1)
print("overlay written:", os.path.join(out, "overlay.json"))

package gen

import (
	"fmt"

	"simverif/cf"
)

func init() { propGen["C15"] = genClient }

func genClient(c *cf.Case, r *cf.Rng, prop string) {
	c.Scenario = "client"
	cfg := &c.Config
	commonTimeouts(c, r)
	cfg.Version = r.PickS("0.8.2.0", "0.10.0.0", "0.10.2.0", "1.0.0", "2.3.0")
	cfg.MetaFull = r.Bool()
	if r.Intn(3) == 0 {
		cfg.MetaRefreshMs = r.Pick(5, 20, 100)
	}
	cfg.MetaRetryMax = r.Pick(0, 1, 3)
	clusterBasic(c, r, 3, 3, 4)
	nb := len(c.Cluster.Brokers)
	topics := []string{}
	for _, t := range c.Cluster.Topics {
		topics = append(topics, t.Name)
	}
	extra := []string{"x1", "x2"} // topics that appear later (or never)
	all := append(append([]string{}, topics...), extra...)
	// seeds
	if r.Intn(3) == 0 {
		var seeds []string
		if r.Bool() {
			seeds = append(seeds, "dead1:9092")
		}
		live := 0
		for _, b := range c.Cluster.Brokers {
			if r.Bool() || live == 0 {
				seeds = append(seeds, fmt.Sprintf("b%d:9092", b))
				live++
			}
		}
		c.Workload = append(c.Workload, cf.Op{Op: "seeds", Args: seeds})
	}
	actors := r.Range(1, 3)
	nops := r.Range(3, 24)
	kinds := []string{"partitions", "writable", "leader", "replicas", "isr", "offline", "brokers", "partitions", "leader"}
	for i := 0; i < nops; i++ {
		op := cf.Op{Actor: r.Intn(actors)}
		if r.Intn(5) == 0 {
			op.Op = "refresh"
			n := r.Range(0, 2)
			for j := 0; j < n; j++ {
				op.Args = append(op.Args, all[r.Intn(len(all))])
			}
		} else {
			op.Op = "read"
			op.Arg = kinds[r.Intn(len(kinds))]
			op.Topic = all[r.Intn(len(all))]
			op.Partition = int32(r.Range(0, 4))
		}
		if r.Intn(3) != 0 {
			op.ThinkUs = int64(r.Pick(100, 1000, 5000, 20000, 50000))
		}
		c.Workload = append(c.Workload, op)
	}
	storm := r.Intn(4) == 0
	if storm {
		// readers released at the very instant a metadata response reaches the client, reading the broker list
		// and leaders back-to-back, while responses change the broker set and leaders together
		if r.Bool() {
			cfg.MetaRefreshMs = r.Pick(5, 20)
		}
		t := c.Cluster.Topics[r.Intn(len(c.Cluster.Topics))]
		ba := actors
		nba := r.Range(1, 3)
		for a := 0; a < nba; a++ {
			nb2 := r.Range(3, 8)
			for i := 0; i < nb2; i++ {
				op := cf.Op{Op: "burst", Actor: ba + a}
				nr := r.Range(2, 8)
				for j := 0; j < nr; j++ {
					switch r.Intn(5) {
					case 0, 1:
						op.Args = append(op.Args, "brokers")
					case 2:
						op.Args = append(op.Args, fmt.Sprintf("%s:%s:%d", r.PickS("partitions", "writable", "replicas", "isr"), t.Name, r.Intn(len(t.Partitions))))
					default:
						op.Args = append(op.Args, fmt.Sprintf("leader:%s:%d", t.Name, r.Intn(len(t.Partitions))))
					}
				}
				c.Workload = append(c.Workload, op)
			}
		}
		ra := ba + nba
		nref := r.Range(3, 10)
		for i := 0; i < nref; i++ {
			op := cf.Op{Op: "refresh", Actor: ra, ThinkUs: int64(r.Pick(2000, 10000, 30000))}
			if r.Bool() {
				op.Args = []string{t.Name}
			}
			c.Workload = append(c.Workload, op)
		}
		at := int64(0)
		for i := 0; i < nref; i++ {
			at += int64(r.Range(1000, 40000))
			f := cf.Fault{When: cf.When{AtUs: at}}
			// (broker 1 keeps its address: a cluster whose every known address is gone teaches nothing)
			if nb < 2 || r.Intn(3) == 0 {
				f.Do, f.Broker = "broker-add", int32(nb+1+i)
			} else {
				f.Do, f.Broker, f.N = "broker-readdr", int32(r.Range(2, nb)), 100+i
			}
			c.Faults = append(c.Faults, f)
			nm := r.Range(1, 3)
			for j := 0; j < nm; j++ {
				c.Faults = append(c.Faults, cf.Fault{When: cf.When{AtUs: at}, Do: "leader-move", Topic: t.Name, Partition: int32(r.Intn(len(t.Partitions))), To: int32(r.Range(1, nb))})
			}
		}
	}
	// view changes
	nv := r.Range(0, 6)
	for i := 0; i < nv; i++ {
		f := cf.Fault{When: cf.When{AtUs: int64(r.Range(100, 300000))}}
		t := all[r.Intn(len(all))]
		switch r.Intn(11) {
		case 0:
			f.Do, f.Topic, f.N, f.To = "topic-add", extra[r.Intn(len(extra))], r.Range(1, 4), int32(r.Intn(3))
		case 1:
			f.Do, f.Topic = "topic-del", t
		case 2:
			f.Do, f.Topic, f.Code = "topic-err", t, r.Pick(5, 3, 17, 29, 0)
		case 3:
			f.Do, f.Topic = "part-add", t
		case 4:
			f.Do, f.Topic = "part-del", t
		case 5, 6:
			f.Do, f.Topic, f.Partition, f.To = "leader-move", t, int32(r.Range(0, 3)), int32(r.Range(1, nb+1))
		case 7:
			f.Do, f.Topic, f.Partition = "leader-none", t, int32(r.Range(0, 3))
		case 8:
			f.Do, f.Broker = "broker-add", int32(nb+1)
		case 9:
			f.Do, f.Broker = "broker-del", int32(r.Range(1, nb))
		default:
			f.Do, f.Broker, f.N = "broker-readdr", int32(r.Range(1, nb)), i+1
		}
		c.Faults = append(c.Faults, f)
	}
	// unreachability
	if r.Intn(3) == 0 {
		nf := r.Range(1, 3)
		for i := 0; i < nf; i++ {
			f := cf.Fault{}
			switch r.Intn(5) {
			case 0, 1:
				f.When = cf.When{AtUs: int64(r.Range(0, 200000))}
				f.Do, f.Broker = "broker-down", int32(r.Range(1, nb))
				if r.Intn(3) == 0 {
					f.Arg = "hole"
				}
				c.Faults = append(c.Faults, f)
				f = cf.Fault{When: cf.When{AtUs: f.When.AtUs + int64(r.Range(1000, 300000))}, Do: "broker-up", Broker: f.Broker}
			case 2:
				f.When = cf.When{API: "Metadata", Nth: r.Range(1, 8)}
				f.Do = r.PickS("drop-before", "drop-after", "silence")
			case 3:
				f.When = cf.When{API: "Metadata", Nth: r.Range(1, 8)}
				f.Do = "truncate"
				f.N = r.Intn(100)
			default:
				f.When = cf.When{AtUs: int64(r.Range(0, 200000))}
				f.Do, f.Broker = "conn-reset", int32(r.Range(1, nb))
			}
			c.Faults = append(c.Faults, f)
		}
	}
	c.MaxSimMs = int64(120000 + 40*(cfg.ReadTimeoutMs+cfg.DialTimeoutMs+(cfg.MetaRetryMax+1)*(cfg.MetaBackoffMs+cfg.ReadTimeoutMs+cfg.DialTimeoutMs)))
}

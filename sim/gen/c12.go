package gen

import "simverif/cf"

func init() {
	// Stand-alone C12 cases (self-tests, `gen`): the close point is drawn blindly; the check itself
	// enumerates close points after a dry run (see simcheck c12Batch).
	propGen["C12"] = func(c *cf.Case, r *cf.Rng, prop string) {
		fam := []string{"C01", "C03", "C07", "C06", "C15"}[r.Intn(5)]
		b := Generate(fam, r.U64())
		*c = *b
		c.Property = "C12"
		if f := c.Config.Flush; f.FreqMs == 0 && (f.Messages > 0 || f.Bytes > 0) {
			c.Config.Flush.FreqMs = 5
		}
		c.Config.Idempotent = false
		c.CloseAt = &cf.CloseAt{K: r.Range(1, 80), Half: r.Bool()}
	}
}

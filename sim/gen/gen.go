// Package gen derives explicit case files from one seed (DESIGN.md 4). Every choice comes from
// the Rng seeded with the per-run seed; nothing else is consulted.
package gen

import (
	"fmt"

	"simverif/cf"
)

var versions = []string{"0.8.2.0", "0.9.0.0", "0.10.0.0", "0.10.2.0", "0.11.0.0", "1.0.0", "1.1.0", "2.1.0", "2.3.0", "2.8.0"}

func verAtLeast(v string, idx int) bool {
	for i, x := range versions {
		if x == v {
			return i >= idx
		}
	}
	return false
}

const (
	v0100 = 2
	v0110 = 4
	v210  = 7
)

// Generate builds the case for (property, seed).
func Generate(property string, seed uint64) *cf.Case {
	r := &cf.Rng{S: seed ^ hashStr(property)}
	c := &cf.Case{V: 1, Property: property, Seed: seed}
	sched(c, r)
	netModel(c, r)
	switch property {
	case "C01", "C02", "C04", "C05", "C16", "C17":
		genProducer(c, r, property)
	case "C18":
		if gens["consumer"] != nil && r.Intn(3) == 0 {
			gens["consumer"](c, r, property)
		} else {
			genProducer(c, r, property)
		}
	default:
		g := propGen[property]
		if g == nil {
			panic("no generator for " + property)
		}
		g(c, r, property)
	}
	return c
}

var gens = map[string]func(c *cf.Case, r *cf.Rng, property string){}
var propGen = map[string]func(c *cf.Case, r *cf.Rng, property string){}

func hashStr(s string) uint64 {
	h := uint64(1469598103934665603)
	for i := 0; i < len(s); i++ {
		h ^= uint64(s[i])
		h *= 1099511628211
	}
	return h
}

func sched(c *cf.Case, r *cf.Rng) {
	c.Sched.Seed = r.U64()
	switch r.Intn(10) {
	case 0, 1, 2, 3:
		c.Sched.Mode = "coin"
	default:
		c.Sched.Mode = "yield"
		c.Sched.YieldN = r.Pick(64, 16, 16, 4, 4, 2)
	}
}

func netModel(c *cf.Case, r *cf.Rng) {
	c.Net.Seed = r.U64()
	switch r.Intn(10) {
	case 0:
		c.Net.Model = "const"
		c.Net.MinUs = r.Pick(100, 1000, 5000)
		c.Net.MaxUs = c.Net.MinUs
	case 1, 2:
		c.Net.Model = "heavy"
		c.Net.MinUs, c.Net.MaxUs = 100, r.Pick(2000, 10000)
	default:
		c.Net.Model = "uniform"
		c.Net.MinUs, c.Net.MaxUs = r.Pick(50, 200, 1000), r.Pick(2000, 5000, 20000)
	}
}

func clusterBasic(c *cf.Case, r *cf.Rng, maxBrokers, maxTopics, maxParts int) {
	nb := r.Range(1, maxBrokers)
	for i := 1; i <= nb; i++ {
		c.Cluster.Brokers = append(c.Cluster.Brokers, int32(i))
	}
	nt := r.Range(1, maxTopics)
	for t := 0; t < nt; t++ {
		name := "t"
		if t > 0 {
			name = fmt.Sprintf("t%d", t)
		}
		tp := cf.Topic{Name: name}
		np := r.Range(1, maxParts)
		sameLeader := r.Intn(3) == 0
		lead := int32(r.Range(1, nb))
		for p := 0; p < np; p++ {
			l := lead
			if !sameLeader {
				l = int32(r.Range(1, nb))
			}
			reps := []int32{l}
			for b := 1; b <= nb; b++ {
				if int32(b) != l && r.Bool() {
					reps = append(reps, int32(b))
				}
			}
			tp.Partitions = append(tp.Partitions, cf.Part{ID: int32(p), Leader: l, Replicas: reps})
		}
		c.Cluster.Topics = append(c.Cluster.Topics, tp)
	}
}

func commonTimeouts(c *cf.Case, r *cf.Rng) {
	c.Config.ReadTimeoutMs = r.Pick(500, 1000, 2000)
	c.Config.DialTimeoutMs = r.Pick(200, 500)
	c.Config.MetaRetryMax = r.Pick(0, 1, 3, 3)
	c.Config.MetaBackoffMs = r.Pick(0, 5, 50, 250)
	c.Config.ChanBuf = r.Pick(0, 1, 4, 256)
}

var retriable = []int{6, 5, 3, 7, 19, 20, 2}
var fatal = []int{10, 17, 29, -1, 87, 47}

func genProducer(c *cf.Case, r *cf.Rng, prop string) {
	c.Scenario = "producer"
	cfg := &c.Config
	commonTimeouts(c, r)
	cfg.Version = versions[r.Intn(len(versions))]
	cfg.RetryMax = r.Pick(0, 1, 2, 3)
	cfg.BackoffMs = r.Pick(0, 0, 1, 5, 50, 200)
	cfg.Acks = r.Pick(1, 1, 1, -1)
	cfg.CloseMode = "async"
	cfg.Partitioner = r.PickS("manual", "hash", "random", "roundrobin", "refhash")
	maxB, maxT, maxP := 3, 2, 4
	faultMax := 5
	nmsg := r.Range(3, 40)
	actors := r.Pick(1, 1, 2, 3)
	switch prop {
	case "C01":
		if r.Intn(3) == 0 {
			cfg.Idempotent = true
		}
		if r.Intn(5) == 0 {
			cfg.Sync = true
		}
		if r.Intn(6) == 0 {
			cfg.CloseMode = "close"
		}
		if r.Intn(8) == 0 {
			cfg.Acks = 0
		}
	case "C02":
		cfg.Partitioner = "manual"
		maxP = 3
	case "C04":
		faultMax = 3
		if r.Intn(6) == 0 {
			cfg.Sync = true
		}
		if r.Intn(5) == 0 {
			cfg.Idempotent = true
		}
	case "C05":
		cfg.Idempotent = true
	case "C16":
		faultMax = 0
		cfg.Partitioner = r.PickS("manual", "roundrobin", "hash")
	case "C17":
		faultMax = 2
		cfg.Partitioner = r.PickS("manual", "hash", "random", "roundrobin", "refhash", "customhash", "custom-absfirst", "custom-hashfn", "custom-fallback", "bad", "hash", "refhash", "customhash-slow", "custom-hashfn-slow")
	case "C18":
		cfg.Interceptors = r.Range(1, 3)
		if r.Intn(3) == 0 {
			cfg.PanicIcpt = r.Range(1, cfg.Interceptors)
		}
	}
	if cfg.Idempotent {
		for !verAtLeast(cfg.Version, v0110) {
			cfg.Version = versions[r.Intn(len(versions))]
		}
		if cfg.RetryMax == 0 {
			cfg.RetryMax = r.Range(1, 3)
		}
		cfg.Acks = -1
		cfg.MaxOpenRequests = 1
	}
	// codec admissible for the version
	if r.Intn(3) == 0 || prop == "C04" && r.Bool() {
		cands := []string{"gzip", "snappy"}
		if verAtLeast(cfg.Version, v0100) {
			cands = append(cands, "lz4")
		}
		if verAtLeast(cfg.Version, v210) {
			cands = append(cands, "zstd")
		}
		cfg.Codec = cands[r.Intn(len(cands))]
		if cfg.Codec == "gzip" && r.Bool() {
			cfg.CodecLevel = r.Range(1, 9)
		}
	}
	// flush settings
	if r.Intn(3) == 0 || prop == "C16" {
		if r.Bool() {
			cfg.Flush.Messages = r.Range(1, 8)
		}
		if r.Intn(3) == 0 {
			cfg.Flush.Bytes = r.Pick(50, 200, 1000, 4000)
		}
		if r.Bool() {
			cfg.Flush.FreqMs = r.Pick(1, 5, 20, 100)
		}
		if r.Bool() {
			cfg.Flush.MaxMessages = r.Range(1, 10)
			if cfg.Flush.MaxMessages < cfg.Flush.Messages {
				cfg.Flush.MaxMessages = cfg.Flush.Messages
			}
		}
	}
	if (cfg.Flush.Messages > 0 || cfg.Flush.Bytes > 0) && cfg.Flush.FreqMs == 0 {
		// A size trigger without Flush.Frequency holds messages until more input arrives: a blocking
		// SendMessage would wait for ever (the application's fault), and shutdown does not flush such a
		// buffer (known finding KF-C01-flushhold). Kept only in a fault-free sub-family of C01.
		if prop == "C01" && !cfg.Sync && r.Intn(4) == 0 {
			faultMax = 0
		} else if prop != "C16" || cfg.Sync {
			cfg.Flush.FreqMs = r.Pick(1, 5, 20)
		}
	}
	clusterBasic(c, r, maxB, maxT, maxP)
	if cfg.Idempotent && r.Intn(10) == 0 {
		// many partitions and topic names that are prefixes of one another (t, t1): per-partition producer state
		// must stay per topic AND partition
		nbk := len(c.Cluster.Brokers)
		t0 := &c.Cluster.Topics[0]
		for n := r.Range(11, 13); len(t0.Partitions) < n; {
			l := int32(1 + len(t0.Partitions)%nbk)
			t0.Partitions = append(t0.Partitions, cf.Part{ID: int32(len(t0.Partitions)), Leader: l, Replicas: []int32{l}})
		}
		if len(c.Cluster.Topics) < 2 {
			tp := cf.Topic{Name: "t1"}
			for p := 0; p < r.Range(2, 3); p++ {
				l := int32(1 + p%nbk)
				tp.Partitions = append(tp.Partitions, cf.Part{ID: int32(p), Leader: l, Replicas: []int32{l}})
			}
			c.Cluster.Topics = append(c.Cluster.Topics, tp)
		}
		if nmsg < 25 {
			nmsg = r.Range(25, 50)
		}
	}
	if prop == "C17" && r.Bool() || prop == "C04" && r.Intn(4) == 0 {
		// leaderless partitions from the start
		for ti := range c.Cluster.Topics {
			for pi := range c.Cluster.Topics[ti].Partitions {
				if r.Intn(3) == 0 {
					c.Cluster.Topics[ti].Partitions[pi].Leader = -1
				}
			}
		}
	}
	// sizes
	valMax := r.Pick(12, 12, 40, 200, 2000)
	if prop == "C16" {
		cfg.MaxMessageBytes = r.Pick(200, 500, 2000, 10000)
		valMax = cfg.MaxMessageBytes + cfg.MaxMessageBytes/4
		if r.Intn(3) == 0 {
			cfg.MaxRequestSize = r.Pick(65536, 100000, 200000)
			if cfg.MaxMessageBytes >= cfg.MaxRequestSize {
				cfg.MaxMessageBytes = 10000
			}
			if r.Bool() {
				valMax = 30000
				cfg.MaxMessageBytes = 40000
				nmsg = r.Range(5, 20)
			}
		}
	} else if r.Intn(6) == 0 {
		cfg.MaxMessageBytes = r.Pick(100, 300, 1000)
	}
	headersOK := verAtLeast(cfg.Version, v0110)
	nkeys := r.Range(1, 6)
	burst := r.Intn(3) == 0
	for i := 0; i < nmsg; i++ {
		t := c.Cluster.Topics[r.Intn(len(c.Cluster.Topics))]
		op := cf.Op{Op: "send", Actor: r.Intn(actors), Topic: t.Name, ID: i}
		op.Partition = t.Partitions[r.Intn(len(t.Partitions))].ID
		op.KeyLen = -1
		switch r.Intn(4) {
		case 0:
			op.KeyLen = -1
		case 1:
			if r.Intn(4) == 0 {
				op.KeyLen = 0
			} else {
				op.KeyLen = r.Range(2, 12)
			}
			op.KeyID = r.Intn(nkeys)
		default:
			op.KeyLen = r.Range(2, 8)
			op.KeyID = r.Intn(nkeys)
		}
		if cfg.Partitioner == "manual" {
			// keys irrelevant; keep some
		}
		op.ValLen = r.Range(0, valMax)
		if prop == "C16" && r.Intn(4) == 0 {
			// straddle the rejection limit for both overhead estimates
			kl := op.KeyLen
			if kl < 0 {
				kl = 0
			}
			op.ValLen = cfg.MaxMessageBytes - kl - r.Range(18, 44)
			if op.ValLen < 0 {
				op.ValLen = 0
			}
		}
		if cfg.Idempotent && !cfg.Sync && r.Intn(5) == 0 {
			op.Arg = "reuse" // submitted in a message object recycled from Successes(), if one is at hand
		}
		if (prop == "C18" || prop == "C04" || prop == "C01") && r.Intn(12) == 0 {
			op.ValLen = -2 // a tombstone: key only, no value
			op.KeyLen = 8
		}
		if headersOK && r.Intn(4) == 0 {
			op.Headers = r.Range(1, 3)
		}
		if r.Intn(5) == 0 {
			op.TsMs = int64(r.Range(1, 1000000))
		}
		switch {
		case burst && i%8 != 0:
		case r.Intn(4) == 0:
			op.ThinkUs = int64(r.Pick(100, 1000, 3000, 10000, 20000, 60000))
		}
		if cfg.Sync && r.Intn(4) == 0 {
			op.N = r.Range(2, 5)
		}
		c.Workload = append(c.Workload, op)
	}
	c.Workload = append(c.Workload, cf.Op{Op: "close", ThinkUs: int64(r.Pick(0, 0, 1000, 20000, 100000))})

	// faults
	nf := 0
	if faultMax > 0 && r.Intn(5) != 0 {
		nf = r.Range(1, faultMax)
	}
	nb := len(c.Cluster.Brokers)
	for i := 0; i < nf; i++ {
		f := cf.Fault{}
		switch k := r.Intn(20); {
		case k < 7:
			f.When = cf.When{API: "Produce", Broker: int32(r.Range(0, nb)), Nth: r.Range(1, 10)}
			f.Do = "errcode"
			if r.Intn(4) == 0 {
				f.Code = fatal[r.Intn(len(fatal))]
			} else {
				f.Code = retriable[r.Intn(len(retriable))]
			}
			if f.Code == 7 || f.Code == 20 {
				f.Append = r.Bool()
			}
			pickPartition(c, r, &f)
			if f.Arg == "" && f.When.Broker == 0 && !f.When.HasPart && r.Intn(4) == 0 {
				// the same trouble twice in a row: the resend of the failed request fails as well, perhaps slowly
				g := f
				g.When.Nth++
				if r.Bool() {
					g.SlowUs = int64(r.Pick(20000, 100000, 600000))
				}
				c.Faults = append(c.Faults, g)
			}
			if (f.Code == 6 || f.Code == 5) && r.Intn(3) == 0 {
				// the error announces an election: no leader for a while
				f.Arg, f.Us, f.To = "election", int64(r.Pick(500, 5000, 30000, 150000, 600000)), int32(r.Range(1, nb))
			}
		case k < 9:
			f.When = cf.When{API: "Produce", Broker: int32(r.Range(0, nb)), Nth: r.Range(1, 10)}
			f.Do = "drop-after"
		case k < 11:
			f.When = cf.When{API: "Produce", Broker: int32(r.Range(0, nb)), Nth: r.Range(1, 10)}
			f.Do = "drop-before"
		case k < 12:
			f.When = cf.When{API: "Produce", Broker: int32(r.Range(0, nb)), Nth: r.Range(1, 8)}
			f.Do = "silence"
			f.Append = r.Bool()
		case k < 13:
			f.When = cf.When{API: "Produce", Broker: int32(r.Range(0, nb)), Nth: r.Range(1, 8)}
			f.Do = "missing-block"
			pickPartition(c, r, &f)
		case k < 15:
			f.When = cf.When{AtUs: int64(r.Range(100, 150000))}
			f.Do = "leader-move"
			t := c.Cluster.Topics[r.Intn(len(c.Cluster.Topics))]
			f.Topic = t.Name
			f.Partition = t.Partitions[r.Intn(len(t.Partitions))].ID
			f.To = int32(r.Range(1, nb))
		case k < 16:
			f.When = cf.When{AtUs: int64(r.Range(100, 150000))}
			f.Do = "conn-reset"
			f.Broker = int32(r.Range(1, nb))
		case k < 17:
			f.When = cf.When{AtUs: int64(r.Range(100, 100000))}
			f.Do = "broker-down"
			f.Broker = int32(r.Range(1, nb))
			if r.Intn(3) == 0 {
				f.Arg = "hole"
			}
			if r.Intn(3) != 0 {
				c.Faults = append(c.Faults, f)
				f = cf.Fault{When: cf.When{AtUs: f.When.AtUs + int64(r.Range(1000, 400000))}, Do: "broker-up", Broker: f.Broker}
			}
		case k < 19:
			f.When = cf.When{API: "Metadata", Broker: 0, Nth: r.Range(1, 6)}
			f.Do = r.PickS("errcode", "errcode", "drop-before", "silence")
			if f.Do == "errcode" {
				f.Code = r.Pick(5, 3, 5, 17)
			}
		default:
			f.When = cf.When{API: "Produce", Broker: int32(r.Range(0, nb)), Nth: r.Range(1, 8)}
			f.Do = "delay"
			f.Us = int64(r.Pick(5000, 50000, 300000))
		}
		c.Faults = append(c.Faults, f)
	}
	if prop == "C16" && r.Intn(5) == 0 {
		// a long steady stream whose gaps are shorter than Flush.Frequency and no other trigger: the flush deadline
		// counts from the first buffered message, not from the last one
		cfg.Flush = cf.Flush{FreqMs: r.Pick(20, 50)}
		cfg.MaxRequestSize = 0
		gap := int64(r.Pick(5000, 10000))
		n := 0
		for i := range c.Workload {
			if c.Workload[i].Op == "send" {
				c.Workload[i].ThinkUs = gap
				c.Workload[i].Actor = 0
				n++
			}
		}
		for i := n; i < 150; i++ {
			t := c.Cluster.Topics[0]
			c.Workload = append(c.Workload[:len(c.Workload)-1], cf.Op{Op: "send", Topic: t.Name, Partition: t.Partitions[0].ID, ID: i, KeyLen: -1, ValLen: 10, ThinkUs: gap}, c.Workload[len(c.Workload)-1])
		}
	}
	if faultMax > 0 && r.Intn(6) == 0 {
		// repeated elections under steady input: every message arrives a little later than the one before, and
		// several produce requests are answered "not leader" followed by a leaderless spell, so that fresh input,
		// parked input, failed leader look-ups and later retry rounds of one partition overlap
		// (bursts that back up against a small channel buffer, separated by pauses long enough to outlast the
		// leader look-up circuit breaker's ten seconds)
		cfg.ChanBuf = r.Pick(0, 1, 1, 4)
		left := 0
		for i := range c.Workload {
			if c.Workload[i].Op != "send" {
				continue
			}
			if left == 0 {
				left = r.Range(3, 12)
				c.Workload[i].ThinkUs = int64(r.Pick(2000, 50000, 1000000, 4000000, 12000000))
			} else {
				c.Workload[i].ThinkUs = 0
			}
			left--
		}
		if r.Bool() {
			c.Faults = nil
		}
		n, nth := r.Range(2, 4), 0
		for j := 0; j < n; j++ {
			nth += r.Range(1, 4)
			f := cf.Fault{When: cf.When{API: "Produce", Nth: nth}, Do: "errcode", Code: r.Pick(6, 6, 5), AllParts: true}
			if r.Intn(4) != 0 {
				f.Arg, f.Us, f.To = "election", int64(r.Pick(500, 5000, 30000, 150000, 600000, 2000000)), int32(r.Range(1, nb))
			}
			c.Faults = append(c.Faults, f)
		}
	}
	// liveness bound in fake time (generous: a false liveness alarm is worse than a slow one)
	per := cfg.BackoffMs + cfg.DialTimeoutMs + cfg.ReadTimeoutMs + (cfg.MetaRetryMax+1)*(cfg.MetaBackoffMs+cfg.ReadTimeoutMs+cfg.DialTimeoutMs)
	c.MaxSimMs = int64(120000 + 4*(cfg.RetryMax+1)*per*4 + 2*cfg.Flush.FreqMs)
}

func pickPartition(c *cf.Case, r *cf.Rng, f *cf.Fault) {
	if r.Intn(3) == 0 {
		f.AllParts = true
		return
	}
	t := c.Cluster.Topics[r.Intn(len(c.Cluster.Topics))]
	f.Topic = t.Name
	f.Partition = t.Partitions[r.Intn(len(t.Partitions))].ID
	if r.Bool() {
		f.When.HasPart, f.When.Topic, f.When.Partition = true, f.Topic, f.Partition
	}
}

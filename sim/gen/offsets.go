package gen

import "simverif/cf"

func init() { propGen["C06"] = genOffsets }

func genOffsets(c *cf.Case, r *cf.Rng, prop string) {
	c.Scenario = "offsets"
	cfg := &c.Config
	commonTimeouts(c, r)
	cfg.Version = r.PickS("0.9.0.0", "0.10.2.0", "1.0.0", "2.3.0")
	cfg.AutoCommit = r.Intn(3) != 0
	cfg.AutoCommitMs = r.Pick(1, 5, 20, 100)
	cfg.OffsetsRetryMax = r.Pick(0, 1, 3)
	if r.Intn(3) == 0 {
		cfg.RetentionMs = r.Pick(1000, 60000)
	}
	cfg.InitialOldest = r.Bool()
	if r.Bool() {
		cfg.X = map[string]int{"sameMeta": 1}
	}
	clusterBasic(c, r, 3, 2, 3)
	c.Cluster.Coordinator = int32(r.Range(1, len(c.Cluster.Brokers)))
	type tp struct {
		t string
		p int32
	}
	var parts []tp
	for _, t := range c.Cluster.Topics {
		for _, p := range t.Partitions {
			if len(parts) < 4 && (r.Bool() || len(parts) == 0) {
				parts = append(parts, tp{t.Name, p.ID})
			}
		}
	}
	for _, x := range parts {
		if r.Intn(3) == 0 {
			c.Workload = append(c.Workload, cf.Op{Op: "stored", Topic: x.t, Partition: x.p, Offset: int64(r.Range(0, 50)), Arg: r.PickS("", "old")})
		}
		c.Workload = append(c.Workload, cf.Op{Op: "manage", Topic: x.t, Partition: x.p})
	}
	actors := r.Range(1, 3)
	n := r.Range(3, 30)
	id := 1
	cur := map[tp]int64{}
	for i := 0; i < n; i++ {
		x := parts[r.Intn(len(parts))]
		op := cf.Op{Actor: r.Intn(actors), Topic: x.t, Partition: x.p, ID: id}
		id++
		switch k := r.Intn(10); {
		case k < 6:
			op.Op = "mark"
			cur[x] += int64(r.Range(-2, 6))
			if cur[x] < 0 {
				cur[x] = 0
			}
			op.Offset = cur[x]
		case k < 8:
			op.Op = "reset"
			op.Offset = cur[x] - int64(r.Range(0, 5))
			if r.Intn(4) == 0 {
				op.Offset = cur[x] + int64(r.Range(1, 3))
			}
			if op.Offset < 0 {
				op.Offset = 0
			}
			if op.Offset < cur[x] {
				cur[x] = op.Offset
			}
		default:
			op.Op = "next"
		}
		if r.Intn(3) != 0 {
			op.ThinkUs = int64(r.Pick(50, 500, 2000, 10000, 30000))
		}
		if op.Op != "next" && r.Intn(5) == 0 {
			op.Arg = "on-commit-response"
		}
		c.Workload = append(c.Workload, op)
	}
	if !cfg.AutoCommit {
		// exactly one committer goroutine
		nc := r.Range(1, 6)
		for i := 0; i < nc; i++ {
			c.Workload = append(c.Workload, cf.Op{Op: "commit", Actor: 9, ThinkUs: int64(r.Pick(500, 5000, 20000))})
		}
	}
	cl := cf.Op{Op: "close", ThinkUs: int64(r.Pick(0, 1000, 30000))}
	if r.Intn(5) == 0 {
		cl.N = 1 // close while the application is still marking
		cl.ThinkUs = int64(r.Range(100, 60000))
	}
	c.Workload = append(c.Workload, cl)
	nb := len(c.Cluster.Brokers)
	if r.Intn(3) != 0 {
		nf := r.Range(1, 4)
		for i := 0; i < nf; i++ {
			f := cf.Fault{}
			switch k := r.Intn(12); {
			case k < 4:
				f.When = cf.When{API: "OffsetCommit", Nth: r.Range(1, 8)}
				f.Do = "errcode"
				f.Code = r.Pick(14, 15, 16, 6, 5, 12, 28, 3, -1)
				if r.Bool() {
					x := parts[r.Intn(len(parts))]
					f.Topic, f.Partition = x.t, x.p
				}
			case k < 5:
				f.When = cf.When{API: "OffsetCommit", Nth: r.Range(1, 8)}
				f.Do = "missing-block"
				x := parts[r.Intn(len(parts))]
				f.Topic, f.Partition = x.t, x.p
			case k < 7:
				f.When = cf.When{API: "OffsetCommit", Nth: r.Range(1, 8)}
				f.Do = r.PickS("drop-before", "drop-after", "silence")
			case k < 8:
				f.When = cf.When{API: "OffsetCommit", Nth: r.Range(1, 8)}
				f.Do = "delay"
				f.Us = int64(r.Pick(2000, 20000, 100000))
			case k < 9:
				f.When = cf.When{AtUs: int64(r.Range(100, 100000))}
				f.Do, f.To = "coordinator-move", int32(r.Range(1, nb))
			case k < 10:
				f.When = cf.When{AtUs: int64(r.Range(100, 60000))}
				f.Do, f.N = "coordinator-loading", 1
				c.Faults = append(c.Faults, f)
				f = cf.Fault{When: cf.When{AtUs: f.When.AtUs + int64(r.Range(1000, 60000))}, Do: "coordinator-loading", N: 0}
			case k < 11:
				f.When = cf.When{API: r.PickS("FindCoordinator", "OffsetFetch"), Nth: r.Range(1, 3)}
				f.Do = "errcode"
				f.Code = r.Pick(15, 14, 16)
			default:
				f.When = cf.When{AtUs: int64(r.Range(100, 100000))}
				f.Do, f.Broker = "conn-reset", int32(r.Range(1, nb))
			}
			c.Faults = append(c.Faults, f)
		}
	}
	c.MaxSimMs = int64(120000 + 40*(cfg.OffsetsRetryMax+1)*(cfg.ReadTimeoutMs+cfg.DialTimeoutMs+(cfg.MetaRetryMax+1)*(cfg.MetaBackoffMs+cfg.ReadTimeoutMs)))
	// (drawn last: everything above is generated as it was before this option existed)
	if r.Intn(3) == 0 {
		for i := range c.Workload {
			if c.Workload[i].Op == "close" {
				// the application gives a partition up (AsyncClose) and asks for it again at once, marks still unflushed
				c.Workload[i].Arg = "remanage"
			}
		}
	}
}

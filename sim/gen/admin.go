package gen

import "simverif/cf"

func init() { propGen["C19"] = genAdmin }

func genAdmin(c *cf.Case, r *cf.Rng, prop string) {
	c.Scenario = "admin"
	cfg := &c.Config
	commonTimeouts(c, r)
	cfg.Version = r.PickS("0.10.2.0", "0.11.0.0", "1.0.0", "2.4.0", "2.8.0")
	cfg.AdminRetryMax = r.Pick(0, 1, 2, 5)
	cfg.AdminBackoffMs = r.Pick(0, 5, 100)
	cfg.AdminTimeoutMs = 3000
	cfg.MetaFull = true // the admin client needs full metadata to learn the controller
	cfg.MetaRetryMax = r.Pick(1, 3)
	nb := r.Range(2, 4)
	for i := 1; i <= nb; i++ {
		c.Cluster.Brokers = append(c.Cluster.Brokers, int32(i))
	}
	c.Cluster.Controller = int32(r.Range(1, nb))
	c.Cluster.Coordinator = int32(r.Range(1, nb))
	tp := cf.Topic{Name: "t"}
	np := r.Range(1, 6)
	for p := 0; p < np; p++ {
		tp.Partitions = append(tp.Partitions, cf.Part{ID: int32(p), Leader: int32(r.Range(1, nb))})
	}
	c.Cluster.Topics = append(c.Cluster.Topics, tp)
	id := 0
	var la int64
	for _, p := range tp.Partitions {
		lg := cf.Log{Topic: "t", Partition: p.ID, Magic: 1}
		genLog(&lg, r, cfg, "C03", &id, &la)
		var keep []cf.Batch
		for _, b := range lg.Batches {
			if b.AtUs == 0 {
				keep = append(keep, b)
			}
		}
		lg.Batches = keep
		c.Cluster.Logs = append(c.Cluster.Logs, lg)
	}
	for p := 0; p < np; p++ {
		if r.Bool() {
			c.Workload = append(c.Workload, cf.Op{Op: "stored", Arg: "g1", Topic: "t", Partition: int32(p), Offset: int64(r.Range(0, 99))})
		}
	}
	nops := r.Range(1, 5)
	alterOK := cfg.Version == "2.4.0" || cfg.Version == "2.8.0"
	created := 0
	at := int64(0)
	for i := 0; i < nops; i++ {
		op := cf.Op{Op: "admin", ThinkUs: int64(r.Pick(0, 1000, 20000))}
		at += op.ThinkUs
		switch k := r.Intn(10); {
		case k < 2:
			op.Arg, op.Topic, op.N = "create-topic", r.PickS("n1", "n2", "t"), r.Range(1, 4)
			created++
		case k < 3:
			op.Arg, op.Topic = "delete-topic", r.PickS("t", "n1", "zz")
		case k < 5:
			op.Arg, op.Topic, op.N = "create-partitions", "t", np+r.Range(0, 3)
		case k < 6 && alterOK:
			op.Arg, op.Topic, op.N = "alter-reassignments", "t", r.Range(1, np)
		case k < 8:
			op.Arg, op.Topic = "delete-records", "t"
			for p := 0; p < np; p++ {
				if r.Bool() || len(op.Ints) == 0 && p == np-1 {
					op.Ints = append(op.Ints, p)
				}
			}
		case k < 9:
			op.Arg, op.Topic, op.Args = "list-group-offsets", "t", []string{"g1"}
			for p := 0; p < np; p++ {
				if r.Bool() || len(op.Ints) == 0 && p == np-1 {
					op.Ints = append(op.Ints, p)
				}
			}
		default:
			if r.Bool() {
				op.Arg, op.Args = "describe-groups", []string{"g1", "g2"}[:r.Range(1, 2)]
			} else {
				op.Arg, op.Args = "delete-group", []string{"g1"}
			}
		}
		if op.Arg == "" {
			op.Arg, op.Topic, op.N = "create-partitions", "t", np+1
		}
		c.Workload = append(c.Workload, op)
	}
	// controller moves: 0 .. Retry.Max+2, placed around the operations
	nm := r.Range(0, cfg.AdminRetryMax+2)
	if r.Intn(3) == 0 {
		nm = 0
	}
	for i := 0; i < nm; i++ {
		f := cf.Fault{When: cf.When{AtUs: at/2 + int64(r.Range(0, 60000))}, Do: "controller-move", To: int32(r.Range(1, nb))}
		if r.Intn(3) == 0 {
			f.Us = int64(r.Pick(500, 5000, 30000, 80000)) // an election gap: no controller for a while
		}
		c.Faults = append(c.Faults, f)
	}
	if r.Intn(3) != 0 {
		nf := r.Range(1, 3)
		for i := 0; i < nf; i++ {
			f := cf.Fault{}
			api := r.PickS("CreateTopics", "DeleteTopics", "CreatePartitions", "AlterPartitionReassignments", "DeleteRecords", "OffsetFetch", "DescribeGroups", "DeleteGroups", "CreatePartitions", "DeleteRecords")
			f.When = cf.When{API: api, Nth: r.Range(1, 3)}
			switch r.Intn(6) {
			case 0, 1, 2:
				f.Do = "errcode"
				f.Code = r.Pick(41, 41, 37, 29, 7, 36, 38, -1, 15, 16, 69, 3)
				f.AllParts = r.Bool()
				f.Partition = int32(r.Range(0, np-1))
			case 3:
				f.Do = "missing-block"
				if api == "DeleteRecords" && r.Bool() {
					f.Do = "missing-partition"
				}
			case 4:
				f.Do = r.PickS("drop-before", "drop-after")
			default:
				f.When = cf.When{AtUs: int64(r.Range(100, 100000))}
				f.Do, f.Topic, f.Partition, f.To = "leader-move", "t", int32(r.Range(0, np-1)), int32(r.Range(1, nb))
				if r.Bool() {
					f.Do, f.To = "coordinator-move", int32(r.Range(1, nb))
				}
			}
			c.Faults = append(c.Faults, f)
		}
	}
	c.MaxSimMs = int64(120000 + 40*(cfg.AdminRetryMax+1)*(cfg.AdminBackoffMs+cfg.ReadTimeoutMs+cfg.DialTimeoutMs+(cfg.MetaRetryMax+1)*(cfg.MetaBackoffMs+cfg.ReadTimeoutMs)))
}

package gen

import (
	"fmt"

	"simverif/cf"
)

func init() {
	propGen["C07"] = genGroup
	propGen["C08"] = genGroup
	propGen["C13"] = genGroup
}

func genGroup(c *cf.Case, r *cf.Rng, prop string) {
	c.Scenario = "group"
	cfg := &c.Config
	commonTimeouts(c, r)
	// the group reports errors with a non-blocking send: an unbuffered Errors() channel silently drops them,
	// and the oracle needs to see them to classify a session that ended early
	cfg.ChanBuf = r.Pick(16, 64, 256)
	cfg.Version = r.PickS("0.10.2.0", "0.11.0.0", "1.0.0", "2.1.0", "2.8.0")
	cfg.Strategy = r.PickS("range", "roundrobin", "sticky")
	storm := prop != "C07"
	if storm && r.Bool() {
		cfg.Strategy = "sticky"
	}
	cfg.SessionMs = r.Pick(60, 200, 1000)
	cfg.HeartbeatMs = cfg.SessionMs / r.Pick(3, 5, 10)
	cfg.RebalanceMs = r.Pick(50, 200, 1000)
	cfg.RebRetryMax = r.Pick(0, 1, 4)
	cfg.RebBackoffMs = r.Pick(1, 10, 100)
	cfg.MetaRefreshMs = r.Pick(20, 100, 600000, 0) // 0 = background refresh disabled (documented value)
	cfg.AutoCommitMs = r.Pick(5, 50, 1000)
	cfg.OffsetsRetryMax = r.Pick(0, 1, 3)
	cfg.InitialOldest = r.Intn(3) != 0
	cfg.MaxWaitMs = r.Pick(5, 50)
	cfg.ConsBackoffMs = r.Pick(5, 50)
	cfg.MaxProcessingMs = r.Pick(20, 100)
	cfg.FetchDefault = r.Pick(256, 32768)
	cfg.X = map[string]int{"initialRebalanceDelayMs": r.Pick(0, 0, 30)}
	maxT, maxP := 2, 6
	if storm {
		maxT, maxP = r.Pick(3, 3, 5), 8
	}
	clusterBasic(c, r, 3, maxT, maxP)
	if storm && r.Bool() {
		// many partitions need all three brokers (8 partitions per broker at most)
		c.Cluster.Brokers = []int32{1, 2, 3}
	}
	// At most 8 partitions per broker: sarama keeps one pointer-keyed map entry per partition consumer and
	// broker; beyond 8 entries Go maps iterate in an order that depends on heap addresses, which are not
	// a function of the case file (replay would not be exact). Leaders are spread round-robin and the
	// group generators inject no leader moves, so the bound holds for the whole run.
	nbk := len(c.Cluster.Brokers)
	total := 0
	for ti := range c.Cluster.Topics {
		t := &c.Cluster.Topics[ti]
		if total+len(t.Partitions) > 6*nbk {
			t.Partitions = t.Partitions[:6*nbk-total] // leaves room for two partitions added during the run
		}
		for pi := range t.Partitions {
			l := int32(1 + (total+pi)%nbk)
			t.Partitions[pi].Leader = l
			t.Partitions[pi].Replicas = []int32{l}
		}
		total += len(t.Partitions)
	}
	var kept []cf.Topic
	for _, t := range c.Cluster.Topics {
		if len(t.Partitions) > 0 {
			kept = append(kept, t)
		}
	}
	c.Cluster.Topics = kept
	c.Cluster.Coordinator = int32(r.Range(1, len(c.Cluster.Brokers)))
	id := 0
	var lastAppend int64
	magic := 1
	if verAtLeast(cfg.Version, v0110) {
		magic = 2
	}
	var topics []string
	for _, t := range c.Cluster.Topics {
		topics = append(topics, t.Name)
		for _, p := range t.Partitions {
			lg := cf.Log{Topic: t.Name, Partition: p.ID, Magic: magic}
			if !storm {
				genLog(&lg, r, cfg, "C03", &id, &lastAppend)
				if len(lg.Batches) > 8 {
					lg.Batches = lg.Batches[:8]
				}
			} else if r.Bool() {
				genLog(&lg, r, cfg, "C03", &id, &lastAppend)
				if len(lg.Batches) > 3 {
					lg.Batches = lg.Batches[:3]
				}
			}
			// appends during the run would need base fix-ups after truncation: keep preloaded ones only
			var keep []cf.Batch
			for _, b := range lg.Batches {
				if b.AtUs == 0 {
					keep = append(keep, b)
				}
			}
			lg.Batches = keep
			c.Cluster.Logs = append(c.Cluster.Logs, lg)
		}
	}
	nm := r.Range(1, 3)
	if storm {
		nm = r.Range(1, 6)
	}
	end := int64(r.Range(300000, 1500000))
	if storm {
		end = int64(r.Range(500000, 3000000))
	}
	for i := 0; i < nm; i++ {
		op := cf.Op{Op: "member", Actor: i}
		// subscription
		for _, t := range topics {
			if r.Intn(4) != 0 || len(op.Args) == 0 && t == topics[len(topics)-1] {
				op.Args = append(op.Args, t)
			}
		}
		if storm && r.Intn(5) == 0 {
			op.Args = append(op.Args, "ghost") // a topic nobody else has and that does not exist
		}
		op.Arg = r.PickS("drain", "drain", "early", "block")
		op.Ints = []int{r.Pick(1, 1, 2, 0), r.Range(1, 6), r.Pick(0, 0, 500)}
		op.ThinkUs = int64(r.Pick(0, 0, 1000, 50000, 200000))
		c.Workload = append(c.Workload, op)
		nev := r.Range(0, 2)
		if storm {
			nev = r.Range(0, 5)
		}
		for j := 0; j < nev; j++ {
			ev := cf.Op{Op: "cancel", Actor: i, ThinkUs: int64(r.Range(1000, int(end)))}
			if len(topics) > 1 && (storm && r.Intn(3) == 0 || !storm && r.Intn(6) == 0) {
				// the application changes its subscription and calls Consume again
				ev.Op = "resub"
				for _, t := range topics {
					if r.Bool() {
						ev.Args = append(ev.Args, t)
					}
				}
				if len(ev.Args) == 0 {
					ev.Args = []string{topics[r.Intn(len(topics))]}
				}
			}
			c.Workload = append(c.Workload, ev)
		}
		if r.Intn(3) == 0 {
			c.Workload = append(c.Workload, cf.Op{Op: "closegroup", Actor: i, ThinkUs: int64(r.Range(1000, int(end)))})
		} else if r.Intn(8) == 0 {
			c.Workload = append(c.Workload, cf.Op{Op: "crash", Actor: i, ThinkUs: int64(r.Range(1000, int(end)))})
		}
	}
	c.Workload = append(c.Workload, cf.Op{Op: "end", ThinkUs: end})
	nb := len(c.Cluster.Brokers)
	nf := 0
	if r.Intn(3) != 0 {
		nf = r.Range(1, 4)
	}
	adds := 0
	for i := 0; i < nf; i++ {
		f := cf.Fault{}
		switch k := r.Intn(14); {
		case k < 4:
			f.When = cf.When{API: r.PickS("JoinGroup", "SyncGroup", "Heartbeat", "Heartbeat", "LeaveGroup"), Nth: r.Range(1, 8)}
			f.Do = "errcode"
			f.Code = r.Pick(27, 25, 22, 16, 15, 14)
		case k < 6:
			f.When = cf.When{API: r.PickS("JoinGroup", "SyncGroup", "Heartbeat", "OffsetCommit", "OffsetFetch", "FindCoordinator"), Nth: r.Range(1, 8)}
			f.Do = r.PickS("drop-before", "drop-after")
		case k < 7:
			f.When = cf.When{AtUs: int64(r.Range(1000, int(end)))}
			f.Do, f.To = "coordinator-move", int32(r.Range(1, nb))
		case k < 9:
			f.When = cf.When{AtUs: int64(r.Range(1000, int(end)))}
			f.Do, f.N = "fence-member", r.Intn(8)
		case k < 11:
			f.When = cf.When{AtUs: int64(r.Range(1000, int(end)))}
			f.Do, f.Topic = "part-add", topics[r.Intn(len(topics))]
			if adds >= 2 {
				f.Do = "part-del"
			} else {
				adds++
			}
			if storm && r.Intn(3) == 0 {
				f.Do = "part-del" // the topic was re-created with fewer partitions
			}
		case k < 12:
			f.When = cf.When{AtUs: int64(r.Range(1000, int(end)))}
			f.Do, f.Broker = "conn-reset", int32(r.Range(1, nb))
		case k < 13:
			f.When = cf.When{API: "OffsetCommit", Nth: r.Range(1, 8)}
			f.Do, f.Code = "errcode", r.Pick(14, 16, 27, 25, 22)
		default:
			f.When = cf.When{API: "Fetch", Nth: r.Range(1, 10)}
			f.Do, f.Code, f.AllParts = "errcode", r.Pick(6, 5, 3), true
		}
		c.Faults = append(c.Faults, f)
	}
	if r.Intn(12) == 0 {
		// the group's coordinator goes away for good (no broker takes the group over): every group request is answered
		// NOT_COORDINATOR and every coordinator look-up COORDINATOR_NOT_AVAILABLE from then on - Consume keeps failing,
		// Close must still return
		c.Faults = append(c.Faults, cf.Fault{When: cf.When{AtUs: int64(r.Range(1000, int(end)))}, Do: "coordinator-move", To: 99})
	}
	if r.Intn(8) == 0 && len(c.Cluster.Topics) > 0 {
		// a partition whose offsets cannot be looked up when its claim is started (first try and the retry
		// after the metadata refresh): the claim cannot start, which ends the session
		t := c.Cluster.Topics[r.Intn(len(c.Cluster.Topics))]
		p := t.Partitions[r.Intn(len(t.Partitions))].ID
		k := r.Pick(1, 1, 3)
		code := r.Pick(6, 5, 3)
		for j := 0; j < 2; j++ {
			c.Faults = append(c.Faults, cf.Fault{When: cf.When{API: "ListOffsets", Topic: t.Name, Partition: p, HasPart: true, Nth: k + j}, Do: "errcode", Code: code})
		}
	}
	_ = fmt.Sprint
	c.MaxSimMs = end/1000 + int64(120000+40*(cfg.RebalanceMs+cfg.SessionMs+(cfg.RebRetryMax+1)*cfg.RebBackoffMs+cfg.ReadTimeoutMs+cfg.DialTimeoutMs+(cfg.MetaRetryMax+1)*(cfg.MetaBackoffMs+cfg.ReadTimeoutMs)))
}

package gen

import (
	"fmt"

	"simverif/cf"
)

func init() {
	gens["consumer"] = genConsumer
	propGen["C03"] = genConsumer
	propGen["C11"] = genConsumer
}

func genConsumer(c *cf.Case, r *cf.Rng, prop string) {
	c.Scenario = "consumer"
	cfg := &c.Config
	commonTimeouts(c, r)
	cfg.Version = versions[r.Intn(len(versions))]
	if prop == "C11" {
		for !verAtLeast(cfg.Version, v0110) {
			cfg.Version = versions[r.Intn(len(versions))]
		}
		cfg.ReadCommitted = r.Intn(4) != 0
	}
	cfg.FetchDefault = r.Pick(48, 64, 128, 256, 1024, 32768, 1048576)
	cfg.FetchMax = r.Pick(0, 0, 4194304)
	cfg.FetchMin = r.Pick(1, 1, 1, 64)
	cfg.MaxWaitMs = r.Pick(5, 50, 250)
	cfg.MaxProcessingMs = r.Pick(5, 20, 100)
	cfg.ConsBackoffMs = r.Pick(0, 5, 50, 500)
	if prop == "C18" {
		cfg.ConsInterceptors = r.Range(1, 3)
		if r.Intn(3) == 0 {
			cfg.PanicIcpt = r.Range(1, cfg.ConsInterceptors)
		}
	}
	logProp := prop
	if prop == "C18" && verAtLeast(cfg.Version, v0110) && r.Bool() {
		// transactional logs: interceptors must not see control or aborted records
		logProp = "C11"
		cfg.ReadCommitted = r.Bool()
	}
	clusterBasic(c, r, 3, 2, 3)
	id := 0
	maxMagic := 0
	switch {
	case verAtLeast(cfg.Version, v0110):
		maxMagic = 2
	case verAtLeast(cfg.Version, v0100):
		maxMagic = 1
	}
	lastAppend := int64(0)
	for _, t := range c.Cluster.Topics {
		for _, p := range t.Partitions {
			lg := cf.Log{Topic: t.Name, Partition: p.ID}
			lg.Magic = r.Intn(maxMagic + 1)
			if maxMagic == 2 && r.Bool() || logProp == "C11" {
				lg.Magic = maxMagic
			}
			if r.Intn(4) == 0 {
				lg.LogStart = int64(r.Range(1, 500))
			}
			if lg.Magic == 1 && r.Intn(4) == 0 {
				lg.AbsInner = true
			}
			genLog(&lg, r, cfg, logProp, &id, &lastAppend)
			c.Cluster.Logs = append(c.Cluster.Logs, lg)
		}
	}
	// readers
	nr := r.Range(1, 3)
	used := map[string]bool{}
	for i := 0; i < nr; i++ {
		t := c.Cluster.Topics[r.Intn(len(c.Cluster.Topics))]
		p := t.Partitions[r.Intn(len(t.Partitions))]
		key := fmt.Sprintf("%s/%d", t.Name, p.ID)
		if used[key] {
			continue
		}
		used[key] = true
		var lg *cf.Log
		for j := range c.Cluster.Logs {
			if c.Cluster.Logs[j].Topic == t.Name && c.Cluster.Logs[j].Partition == p.ID {
				lg = &c.Cluster.Logs[j]
			}
		}
		op := cf.Op{Op: "consume", Actor: i, Topic: t.Name, Partition: p.ID}
		end := lg.LogStart
		for _, b := range lg.Batches {
			if b.AtUs == 0 {
				last := b.Base + int64(len(b.Recs))
				if len(b.Deltas) > 0 {
					last = b.Base + int64(b.Deltas[len(b.Deltas)-1]) + 1
				}
				if b.Base+int64(b.LastDelta)+1 > last {
					last = b.Base + int64(b.LastDelta) + 1
				}
				if last > end {
					end = last
				}
			}
		}
		switch r.Intn(6) {
		case 0:
			op.Offset = -1 // newest
		case 1, 2:
			op.Offset = -2 // oldest
		case 3:
			op.Offset = end // literal == high watermark
		default:
			op.Offset = lg.LogStart + int64(r.Intn(int(end-lg.LogStart)+1))
		}
		if r.Intn(12) == 0 {
			op.Offset = end + int64(r.Range(1, 5)) // out of range
		}
		op.ThinkUs = int64(r.Pick(0, 0, 1000, 30000))
		pace := r.Pick(0, 0, 0, 100, 2000)
		stallEvery, stallUs := 0, 0
		if r.Intn(3) == 0 || prop == "C18" && r.Bool() {
			stallEvery = r.Range(1, 7)
			stallUs = cfg.MaxProcessingMs*1000*r.Pick(1, 2, 3, 5) + r.Range(0, 3000)
		}
		closeAfter := -1
		if r.Intn(6) == 0 {
			closeAfter = r.Range(0, 10)
		}
		op.Ints = []int{pace, stallEvery, stallUs, closeAfter, r.Intn(2), 0, r.Intn(2)}
		c.Workload = append(c.Workload, op)
	}
	// faults
	nf := 0
	if r.Intn(4) != 0 {
		nf = r.Range(1, 5)
	}
	nb := len(c.Cluster.Brokers)
	for i := 0; i < nf; i++ {
		f := cf.Fault{}
		switch k := r.Intn(20); {
		case k < 6:
			f.When = cf.When{API: "Fetch", Broker: int32(r.Range(0, nb)), Nth: r.Range(1, 12)}
			f.Do = "errcode"
			switch r.Intn(8) {
			case 0, 1, 2, 3:
				f.Code = r.Pick(3, 6, 5, 9)
			case 4, 5, 6:
				f.Code = r.Pick(7, -1, 14, 29)
			default:
				f.Code = 1
			}
			pickPartition(c, r, &f)
			f.When.HasPart = false
		case k < 8:
			f.When = cf.When{API: "Fetch", Broker: int32(r.Range(0, nb)), Nth: r.Range(1, 12)}
			f.Do = r.PickS("drop-before", "silence")
		case k < 10:
			f.When = cf.When{API: "Fetch", Broker: int32(r.Range(0, nb)), Nth: r.Range(1, 12)}
			f.Do = "throttle-empty"
		case k < 12:
			f.When = cf.When{API: "Fetch", Broker: int32(r.Range(0, nb)), Nth: r.Range(1, 12)}
			f.Do = "flip-checksummed"
			f.AllParts = true
		case k < 13:
			f.When = cf.When{API: "Fetch", Broker: int32(r.Range(0, nb)), Nth: r.Range(1, 12)}
			f.Do = "missing-block"
			f.AllParts = true
		case k < 15:
			f.When = cf.When{AtUs: int64(r.Range(100, 200000))}
			f.Do = "leader-move"
			t := c.Cluster.Topics[r.Intn(len(c.Cluster.Topics))]
			f.Topic = t.Name
			f.Partition = t.Partitions[r.Intn(len(t.Partitions))].ID
			f.To = int32(r.Range(1, nb))
		case k < 16:
			f.When = cf.When{AtUs: int64(r.Range(100, 200000))}
			f.Do = "broker-down"
			f.Broker = int32(r.Range(1, nb))
			c.Faults = append(c.Faults, f)
			f = cf.Fault{When: cf.When{AtUs: f.When.AtUs + int64(r.Range(1000, 400000))}, Do: "broker-up", Broker: f.Broker}
		case k < 17:
			f.When = cf.When{AtUs: int64(r.Range(100, 200000))}
			f.Do = "conn-reset"
			f.Broker = int32(r.Range(1, nb))
		case k < 19:
			f.When = cf.When{API: "Metadata", Nth: r.Range(1, 6)}
			f.Do = r.PickS("errcode", "drop-before")
			f.Code = r.Pick(5, 3)
		default:
			f.When = cf.When{API: "ListOffsets", Nth: r.Range(1, 4)}
			f.Do = "errcode"
			f.Code = r.Pick(6, 5, 3)
		}
		c.Faults = append(c.Faults, f)
	}
	c.MaxSimMs = int64(180000+lastAppend/1000) + int64(40*(cfg.ConsBackoffMs+cfg.ReadTimeoutMs+cfg.DialTimeoutMs+(cfg.MetaRetryMax+1)*(cfg.MetaBackoffMs+cfg.ReadTimeoutMs)))
}

func genLog(lg *cf.Log, r *cf.Rng, cfg *cf.Config, prop string, id *int, lastAppend *int64) {
	nb := r.Range(0, 14)
	if r.Intn(8) == 0 {
		nb = r.Range(15, 40)
	}
	next := lg.LogStart
	valMax := r.Pick(8, 8, 40, 300)
	open := map[int64]bool{}
	txnMode := prop == "C11" && lg.Magic == 2
	appendPhase := false
	at := int64(0)
	logAppend := lg.Magic >= 1 && r.Intn(8) == 0 // a LogAppendTime topic: the broker's clock, not the producer's
	appendTs := int64(1600000000000)
	for i := 0; i < nb; i++ {
		b := cf.Batch{Base: next}
		if logAppend {
			appendTs += int64(r.Range(0, 5000))
			b.AppendTsMs = appendTs
		}
		if !appendPhase && i > nb/2 && r.Intn(4) == 0 {
			appendPhase = true
		}
		if appendPhase {
			at += int64(r.Range(1000, 80000))
			b.AtUs = at
			if at > *lastAppend {
				*lastAppend = at
			}
		}
		n := r.Range(1, 8)
		if lg.Magic < 2 {
			if r.Intn(3) != 0 {
				n = 1 // plain message
			} else {
				cands := []string{"gzip", "snappy"}
				if lg.Magic == 1 {
					cands = append(cands, "lz4")
				}
				b.Codec = cands[r.Intn(len(cands))]
			}
		} else if r.Intn(3) == 0 {
			cands := []string{"gzip", "snappy", "lz4"}
			if verAtLeast(cfg.Version, v210) {
				cands = append(cands, "zstd")
			}
			b.Codec = cands[r.Intn(len(cands))]
		}
		if txnMode {
			switch k := r.Intn(10); {
			case k < 5:
				pid := int64(r.Range(1, 3))
				b.PID, b.Txn = pid, true
				open[pid] = true
			case k < 8 && len(open) > 0:
				// end one open transaction
				for pid := int64(1); pid <= 3; pid++ {
					if open[pid] {
						b.PID, b.Txn = pid, true
						b.Control = r.PickS("commit", "abort")
						delete(open, pid)
						n = 1
						break
					}
				}
			default:
				if r.Bool() {
					b.PID = int64(r.Range(4, 5)) // idempotent, non-transactional
				}
			}
		}
		delta := 0
		gaps := !txnMode && b.Control == "" && (lg.Magic == 2 || b.Codec != "") && r.Intn(4) == 0
		for j := 0; j < n; j++ {
			rec := cf.Rec{ID: *id, KeyLen: r.Pick(-1, 0, 3, 5, 9), ValLen: r.Range(0, valMax)}
			*id++
			if r.Intn(10) == 0 {
				rec.ValLen = -1
			}
			if lg.Magic == 2 && r.Intn(4) == 0 {
				rec.Headers = r.Range(1, 3)
			}
			if lg.Magic >= 1 {
				rec.TsMs = int64(r.Range(1, 2000000000))
			}
			b.Recs = append(b.Recs, rec)
			b.Deltas = append(b.Deltas, delta)
			if gaps && r.Bool() {
				delta += r.Range(1, 3)
			}
			delta++
		}
		last := b.Deltas[len(b.Deltas)-1]
		if gaps && lg.Magic == 2 && r.Bool() {
			b.LastDelta = last + r.Range(1, 3)
			last = b.LastDelta
		}
		if !gaps {
			b.Deltas = nil
		}
		next = b.Base + int64(last) + 1
		if lg.Magic == 2 && !appendPhase && r.Intn(10) == 0 {
			next += int64(r.Range(1, 4)) // hole between batches (compacted away)
		}
		lg.Batches = append(lg.Batches, b)
	}
	// close the remaining transactions most of the time
	if txnMode && r.Intn(4) != 0 {
		for pid := int64(1); pid <= 3; pid++ {
			if open[pid] {
				b := cf.Batch{Base: next, PID: pid, Txn: true, Control: r.PickS("commit", "abort"), Recs: []cf.Rec{{ID: *id}}}
				*id++
				if appendPhase {
					at += int64(r.Range(1000, 80000))
					b.AtUs = at
					if at > *lastAppend {
						*lastAppend = at
					}
				}
				next++
				lg.Batches = append(lg.Batches, b)
			}
		}
	}
}

package gen

import "simverif/cf"

func init() { propGen["C14"] = genBroker }

func genBroker(c *cf.Case, r *cf.Rng, prop string) {
	c.Scenario = "broker"
	cfg := &c.Config
	cfg.Version = r.PickS("0.10.2.0", "1.0.0", "2.3.0")
	cfg.MaxOpenRequests = r.Pick(1, 2, 2, 5)
	cfg.ReadTimeoutMs = r.Pick(200, 500, 1000)
	cfg.DialTimeoutMs = 200
	c.Cluster.Brokers = []int32{1}
	callers := r.Range(1, 8)
	tok := 1
	total := 0
	for a := 0; a < callers; a++ {
		n := r.Range(1, 6)
		for i := 0; i < n; i++ {
			op := cf.Op{Op: "call", Actor: a, ID: tok, Arg: r.PickS("meta", "offsetfetch")}
			tok++
			total++
			if r.Intn(3) == 0 {
				op.ThinkUs = int64(r.Pick(100, 1000, 5000, 20000))
			}
			c.Workload = append(c.Workload, op)
		}
	}
	if r.Intn(4) == 0 {
		c.Workload = append(c.Workload, cf.Op{Op: "close", ThinkUs: int64(r.Range(0, 40000))})
	}
	if r.Intn(4) != 0 {
		f := cf.Fault{When: cf.When{API: "*", Nth: r.Range(1, total)}}
		f.Do = r.PickS("wrong-corr", "oversize", "badlen", "truncate", "short-header", "close", "drop-before", "drop-after", "silence", "stall", "delay", "delay")
		f.N = r.Intn(1000)
		if f.Do == "delay" {
			if r.Bool() {
				f.Us = int64(cfg.ReadTimeoutMs) * 1000 * int64(r.Range(2, 3))
			} else {
				f.Us = int64(cfg.ReadTimeoutMs) * 1000 / int64(r.Range(3, 20))
			}
		}
		c.Faults = append(c.Faults, f)
		if r.Intn(3) == 0 {
			c.Faults = append(c.Faults, cf.Fault{When: cf.When{API: "*", Nth: r.Range(1, total)}, Do: "delay", Us: int64(cfg.ReadTimeoutMs) * 1000 / int64(r.Range(3, 20))})
		}
	}
	c.MaxSimMs = int64(60000 + cfg.ReadTimeoutMs*(total+2)*4)
}

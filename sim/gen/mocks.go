package gen

import "simverif/cf"

func init() { propGen["C20"] = genMocks }

func genMocks(c *cf.Case, r *cf.Rng, prop string) {
	c.Scenario = "mocks"
	cfg := &c.Config
	cfg.Version = "0.8.2.0"
	cfg.ChanBuf = r.Pick(0, 1, 256)
	kind := r.Intn(3)
	np := r.Range(1, 8)
	cfg.X = map[string]int{"kind": kind, "partitions": np}
	cfg.Partitioner = r.PickS("hash", "manual", "roundrobin", "random", "hash", "manual")
	if r.Intn(12) == 0 {
		cfg.Partitioner = "bad"
	}
	c.MaxSimMs = 60000
	if kind == 2 {
		if r.Intn(3) == 0 {
			cfg.X["consumerChanBuf"] = r.Pick(1, 2) - 1 // 0 or 1: messages are yielded while they are consumed
		} else {
			cfg.X["consumerChanBuf"] = 256
		}
		nparts := r.Range(1, 4)
		id := 0
		for p := 0; p < nparts; p++ {
			off := int64(r.Pick(0, 5, -1000, -1000))
			if r.Intn(5) != 0 {
				op := cf.Op{Op: "expect-consume", Partition: int32(p), Offset: off}
				if r.Intn(3) == 0 {
					op.Ints = []int{r.Intn(2), r.Intn(2)} // messages / errors expected to be drained on close
				}
				c.Workload = append(c.Workload, op)
			}
		}
		ny := r.Range(0, 20)
		for i := 0; i < ny; i++ {
			op := cf.Op{Op: "yield", Partition: int32(r.Intn(nparts)), ID: id}
			if r.Intn(4) == 0 {
				op.Op = "yield-error"
			}
			id++
			c.Workload = append(c.Workload, op)
		}
		for p := 0; p < nparts; p++ {
			if r.Intn(6) != 0 {
				off := int64(r.Pick(0, 5, 5, 7))
				op := cf.Op{Op: "consume", Partition: int32(p), Offset: off, N: r.Intn(2)}
				if r.Intn(3) == 0 {
					op.Ints = []int{r.Pick(0, 1, 2), r.Pick(0, 0, 1)} // messages / errors left unread
				}
				c.Workload = append(c.Workload, op)
			}
		}
		if r.Intn(4) == 0 {
			c.Workload = append(c.Workload, cf.Op{Op: "consume", Partition: int32(r.Intn(nparts)), Offset: 0, N: r.Intn(2)})
		}
		return
	}
	ne := r.Range(0, 12)
	allCheckers := kind == 0 && r.Bool()
	for i := 0; i < ne; i++ {
		k := r.Pick(0, 0, 1, 2, 3, 4, 5, 2)
		if allCheckers {
			k = r.Pick(2, 2, 3, 4, 5)
		} else if kind == 0 && r.Intn(8) == 0 {
			k = 6 // a checker during which another goroutine adds one more expectation
		}
		c.Workload = append(c.Workload, cf.Op{Op: "expect", N: k})
	}
	nm := ne + r.Pick(-2, -1, 0, 0, 0, 1, 2)
	if nm < 0 {
		nm = 0
	}
	senders := 1
	if kind == 0 && allCheckers {
		senders = r.Range(1, 3)
	}
	for i := 0; i < nm; i++ {
		op := cf.Op{Op: "send", Actor: r.Intn(senders), ID: i, Partition: int32(r.Intn(np)), KeyLen: r.Pick(-1, 2), KeyID: r.Intn(4)}
		if kind == 1 && r.Intn(4) == 0 {
			op.N = r.Range(2, 4) // a SendMessages batch starts here
		}
		c.Workload = append(c.Workload, op)
	}
}

package main

// Independent implementation of the record-level wire formats (DESIGN.md 2.4): the model broker
// validates what producers send and frames what consumers fetch without using sarama's codecs.

import (
	"bytes"
	"compress/gzip"
	"encoding/binary"
	"errors"
	"fmt"
	"hash/crc32"
	"io"

	snappy "github.com/eapache/go-xerial-snappy"
	"github.com/klauspost/compress/zstd"
	"github.com/pierrec/lz4"
)

var castagnoli = crc32.MakeTable(crc32.Castagnoli)

type rd struct {
	b   []byte
	off int
	err error
}

func (r *rd) fail(s string) {
	if r.err == nil {
		r.err = errors.New(s)
	}
}
func (r *rd) need(n int) bool {
	if r.err != nil {
		return false
	}
	if n < 0 || r.off+n > len(r.b) {
		r.fail(fmt.Sprintf("short buffer: need %d at %d of %d", n, r.off, len(r.b)))
		return false
	}
	return true
}
func (r *rd) i8() int8 {
	if !r.need(1) {
		return 0
	}
	v := int8(r.b[r.off])
	r.off++
	return v
}
func (r *rd) i16() int16 {
	if !r.need(2) {
		return 0
	}
	v := int16(binary.BigEndian.Uint16(r.b[r.off:]))
	r.off += 2
	return v
}
func (r *rd) i32() int32 {
	if !r.need(4) {
		return 0
	}
	v := int32(binary.BigEndian.Uint32(r.b[r.off:]))
	r.off += 4
	return v
}
func (r *rd) i64() int64 {
	if !r.need(8) {
		return 0
	}
	v := int64(binary.BigEndian.Uint64(r.b[r.off:]))
	r.off += 8
	return v
}
func (r *rd) raw(n int) []byte {
	if !r.need(n) {
		return nil
	}
	v := r.b[r.off : r.off+n]
	r.off += n
	return v
}
func (r *rd) str() string {
	n := int(r.i16())
	if n < 0 {
		return ""
	}
	return string(r.raw(n))
}
func (r *rd) nstr() (string, bool) {
	n := int(r.i16())
	if n < 0 {
		return "", false
	}
	return string(r.raw(n)), true
}

// bytes32: int32 length prefixed, -1 = nil
func (r *rd) bytes32() []byte {
	n := int(r.i32())
	if n < 0 {
		return nil
	}
	v := r.raw(n)
	if v == nil && r.err == nil {
		return []byte{}
	}
	return v
}
func (r *rd) varint() int64 {
	if r.err != nil {
		return 0
	}
	v, n := binary.Varint(r.b[r.off:])
	if n <= 0 {
		r.fail("bad varint")
		return 0
	}
	r.off += n
	return v
}
func (r *rd) vbytes() []byte {
	n := int(r.varint())
	if n < 0 {
		return nil
	}
	v := r.raw(n)
	if v == nil && r.err == nil {
		return []byte{}
	}
	return v
}
func (r *rd) rem() int { return len(r.b) - r.off }

type wr struct{ b []byte }

func (w *wr) i8(v int8)   { w.b = append(w.b, byte(v)) }
func (w *wr) i16(v int16) { w.b = binary.BigEndian.AppendUint16(w.b, uint16(v)) }
func (w *wr) i32(v int32) { w.b = binary.BigEndian.AppendUint32(w.b, uint32(v)) }
func (w *wr) i64(v int64) { w.b = binary.BigEndian.AppendUint64(w.b, uint64(v)) }
func (w *wr) raw(v []byte) { w.b = append(w.b, v...) }
func (w *wr) str(s string) { w.i16(int16(len(s))); w.b = append(w.b, s...) }
func (w *wr) bytes32(v []byte) {
	if v == nil {
		w.i32(-1)
		return
	}
	w.i32(int32(len(v)))
	w.raw(v)
}
func (w *wr) varint(v int64) { w.b = binary.AppendVarint(w.b, v) }
func (w *wr) vbytes(v []byte) {
	if v == nil {
		w.varint(-1)
		return
	}
	w.varint(int64(len(v)))
	w.raw(v)
}

// ---- request header ----

type reqHeader struct {
	api, ver int16
	corr     int32
	client   string
	body     []byte
}

func parseHeader(frame []byte) (reqHeader, error) {
	r := &rd{b: frame}
	n := r.i32()
	var h reqHeader
	if int(n) != len(frame)-4 {
		return h, fmt.Errorf("frame length %d != %d", n, len(frame)-4)
	}
	h.api = r.i16()
	h.ver = r.i16()
	h.corr = r.i32()
	h.client, _ = r.nstr()
	if r.err != nil {
		return h, r.err
	}
	h.body = frame[r.off:]
	return h, nil
}

// ---- records ----

type hdr struct{ k, v []byte }

// wrec is one record as seen on the wire.
type wrec struct {
	key, val []byte
	headers  []hdr
	tsMs     int64 // -1 none (magic 0)
	delta    int64 // offset delta within the batch (v2) / inner offset (legacy)
}

// wbatch is one record batch (v2) or one top-level legacy message (possibly a compressed wrapper).
type wbatch struct {
	wrapperOnlyTs bool // LogAppendTime stamped on a v1 wrapper only (inner messages untouched)
	magic      int8
	codec      int // 0 none 1 gzip 2 snappy 3 lz4 4 zstd
	baseOffset int64
	lastDelta  int32
	pid        int64
	epoch      int16
	baseSeq    int32
	txn        bool
	control    bool
	logAppend  bool
	firstTs    int64
	maxTs      int64
	recs       []wrec
	size       int
}

var codecNames = []string{"none", "gzip", "snappy", "lz4", "zstd"}

func codecID(name string) int {
	for i, n := range codecNames {
		if n == name {
			return i
		}
	}
	return 0
}

func decompress(codec int, data []byte) ([]byte, error) {
	switch codec {
	case 0:
		return data, nil
	case 1:
		zr, err := gzip.NewReader(bytes.NewReader(data))
		if err != nil {
			return nil, err
		}
		return io.ReadAll(zr)
	case 2:
		return snappy.Decode(data)
	case 3:
		return io.ReadAll(lz4.NewReader(bytes.NewReader(data)))
	case 4:
		d, err := zstd.NewReader(nil)
		if err != nil {
			return nil, err
		}
		defer d.Close()
		return d.DecodeAll(data, nil)
	}
	return nil, fmt.Errorf("unknown codec %d", codec)
}

func compress(codec int, data []byte) []byte {
	switch codec {
	case 0:
		return data
	case 1:
		var buf bytes.Buffer
		zw := gzip.NewWriter(&buf)
		zw.Write(data)
		zw.Close()
		return buf.Bytes()
	case 2:
		return snappy.Encode(data)
	case 3:
		var buf bytes.Buffer
		zw := lz4.NewWriter(&buf)
		zw.Write(data)
		zw.Close()
		return buf.Bytes()
	case 4:
		e, _ := zstd.NewWriter(nil, zstd.WithEncoderConcurrency(1))
		defer e.Close()
		return e.EncodeAll(data, nil)
	}
	panic("codec")
}

// decodeRecordSet parses the record_set bytes of one produce partition the way a broker validates
// them. wantMagic: -1 any.
func decodeRecordSet(b []byte) ([]wbatch, error) {
	if len(b) < 17 {
		if len(b) == 0 {
			return nil, nil
		}
		return nil, fmt.Errorf("record set too short (%d bytes)", len(b))
	}
	magic := int8(b[16])
	if magic == 2 {
		var out []wbatch
		r := &rd{b: b}
		for r.rem() > 0 {
			wb, err := decodeBatchV2(r)
			if err != nil {
				return nil, err
			}
			out = append(out, wb)
		}
		return out, nil
	}
	if magic != 0 && magic != 1 {
		return nil, fmt.Errorf("unknown magic %d", magic)
	}
	return decodeMessageSet(b, true)
}

func decodeBatchV2(r *rd) (wbatch, error) {
	var wb wbatch
	start := r.off
	wb.baseOffset = r.i64()
	blen := int(r.i32())
	if r.err != nil {
		return wb, r.err
	}
	if blen < 49 || r.off+blen > len(r.b) {
		return wb, fmt.Errorf("batch length %d disagrees with data (%d left)", blen, len(r.b)-r.off)
	}
	end := r.off + blen
	r.i32() // partition leader epoch
	wb.magic = r.i8()
	if wb.magic != 2 {
		return wb, fmt.Errorf("batch magic %d", wb.magic)
	}
	crc := uint32(r.i32())
	if got := crc32.Checksum(r.b[r.off:end], castagnoli); got != crc {
		return wb, fmt.Errorf("batch CRC32C mismatch: header %08x computed %08x", crc, got)
	}
	attrs := r.i16()
	wb.codec = int(attrs & 7)
	wb.logAppend = attrs&8 != 0
	wb.txn = attrs&16 != 0
	wb.control = attrs&32 != 0
	wb.lastDelta = r.i32()
	wb.firstTs = r.i64()
	wb.maxTs = r.i64()
	wb.pid = r.i64()
	wb.epoch = r.i16()
	wb.baseSeq = r.i32()
	n := int(r.i32())
	if r.err != nil {
		return wb, r.err
	}
	if wb.codec > 4 {
		return wb, fmt.Errorf("unknown codec %d", wb.codec)
	}
	payload, err := decompress(wb.codec, r.b[r.off:end])
	if err != nil {
		return wb, fmt.Errorf("decompress (%s): %v", codecNames[wb.codec], err)
	}
	pr := &rd{b: payload}
	if n < 0 {
		return wb, fmt.Errorf("record count %d", n)
	}
	for i := 0; i < n; i++ {
		l := int(pr.varint())
		if pr.err != nil {
			return wb, pr.err
		}
		if l < 0 || pr.off+l > len(pr.b) {
			return wb, fmt.Errorf("record %d length %d disagrees with data", i, l)
		}
		rend := pr.off + l
		pr.i8()
		var rec wrec
		rec.tsMs = wb.firstTs + pr.varint()
		rec.delta = pr.varint()
		rec.key = pr.vbytes()
		rec.val = pr.vbytes()
		nh := int(pr.varint())
		if nh < 0 {
			return wb, fmt.Errorf("record %d header count %d", i, nh)
		}
		for j := 0; j < nh; j++ {
			var h hdr
			h.k = pr.vbytes()
			h.v = pr.vbytes()
			rec.headers = append(rec.headers, h)
		}
		if pr.err != nil {
			return wb, pr.err
		}
		if pr.off != rend {
			return wb, fmt.Errorf("record %d length %d but consumed %d", i, l, pr.off-(rend-l))
		}
		wb.recs = append(wb.recs, rec)
	}
	if pr.rem() != 0 {
		return wb, fmt.Errorf("%d trailing bytes after %d records", pr.rem(), n)
	}
	if n > 0 {
		if int64(wb.lastDelta) != wb.recs[n-1].delta {
			return wb, fmt.Errorf("lastOffsetDelta %d but last record delta %d", wb.lastDelta, wb.recs[n-1].delta)
		}
		for i, rec := range wb.recs {
			if rec.delta != int64(i) {
				return wb, fmt.Errorf("record %d has offset delta %d", i, rec.delta)
			}
		}
	}
	r.off = end
	wb.size = end - start
	return wb, nil
}

// decodeMessageSet parses a legacy message set. top: top-level set of a produce request.
func decodeMessageSet(b []byte, top bool) ([]wbatch, error) {
	var out []wbatch
	r := &rd{b: b}
	for r.rem() > 0 {
		start := r.off
		off := r.i64()
		size := int(r.i32())
		if r.err != nil {
			return nil, r.err
		}
		if size < 14 || r.off+size > len(r.b) {
			return nil, fmt.Errorf("message size %d disagrees with data (%d left)", size, len(r.b)-r.off)
		}
		end := r.off + size
		crc := uint32(r.i32())
		if got := crc32.ChecksumIEEE(r.b[r.off:end]); got != crc {
			return nil, fmt.Errorf("message CRC mismatch: header %08x computed %08x", crc, got)
		}
		magic := r.i8()
		if magic != 0 && magic != 1 {
			return nil, fmt.Errorf("message magic %d", magic)
		}
		attrs := r.i8()
		ts := int64(-1)
		if magic == 1 {
			ts = r.i64()
		}
		key := r.bytes32()
		val := r.bytes32()
		if r.err != nil {
			return nil, r.err
		}
		if r.off != end {
			return nil, fmt.Errorf("message size %d but consumed %d", size, r.off-(end-size))
		}
		wb := wbatch{magic: magic, codec: int(attrs & 7), baseOffset: off, pid: -1, firstTs: ts, maxTs: ts, logAppend: attrs&8 != 0, size: end - start}
		if wb.codec == 0 {
			wb.recs = []wrec{{key: key, val: val, tsMs: ts, delta: 0}}
		} else {
			if !top {
				return nil, errors.New("nested compressed message")
			}
			if wb.codec > 3 {
				return nil, fmt.Errorf("codec %d not allowed for magic %d", wb.codec, magic)
			}
			inner, err := decompress(wb.codec, val)
			if err != nil {
				return nil, fmt.Errorf("decompress (%s): %v", codecNames[wb.codec], err)
			}
			in, err := decodeMessageSet(inner, false)
			if err != nil {
				return nil, fmt.Errorf("inner set: %v", err)
			}
			if len(in) == 0 {
				return nil, errors.New("empty compressed wrapper")
			}
			for _, ib := range in {
				if ib.magic != magic {
					return nil, fmt.Errorf("inner magic %d in wrapper magic %d", ib.magic, magic)
				}
				rec := ib.recs[0]
				rec.delta = ib.baseOffset // inner offset as written (not validated: brokers overwrite)
				wb.recs = append(wb.recs, rec)
			}
		}
		out = append(out, wb)
	}
	return out, nil
}

// ---- produce request ----

type producePart struct {
	topic     string
	partition int32
	data      []byte
}
type produceReq struct {
	txnID   string
	acks    int16
	timeout int32
	parts   []producePart
}

func decodeProduce(ver int16, body []byte) (*produceReq, error) {
	r := &rd{b: body}
	p := &produceReq{}
	if ver >= 3 {
		p.txnID, _ = r.nstr()
	}
	p.acks = r.i16()
	p.timeout = r.i32()
	nt := int(r.i32())
	for i := 0; i < nt && r.err == nil; i++ {
		t := r.str()
		np := int(r.i32())
		for j := 0; j < np && r.err == nil; j++ {
			part := r.i32()
			sz := int(r.i32())
			data := r.raw(sz)
			p.parts = append(p.parts, producePart{t, part, data})
		}
	}
	if r.err != nil {
		return nil, r.err
	}
	if r.rem() != 0 {
		return nil, fmt.Errorf("%d trailing bytes in produce request", r.rem())
	}
	return p, nil
}

// ---- fetch request ----

type fetchPart struct {
	topic     string
	partition int32
	offset    int64
	maxBytes  int32
}
type fetchReq struct {
	maxWaitMs int32
	minBytes  int32
	maxBytes  int32
	isolation int8
	parts     []fetchPart
	rack      string
}

func decodeFetch(ver int16, body []byte) (*fetchReq, error) {
	r := &rd{b: body}
	f := &fetchReq{maxBytes: -1}
	r.i32() // replica id
	f.maxWaitMs = r.i32()
	f.minBytes = r.i32()
	if ver >= 3 {
		f.maxBytes = r.i32()
	}
	if ver >= 4 {
		f.isolation = r.i8()
	}
	if ver >= 7 {
		r.i32()
		r.i32()
	}
	nt := int(r.i32())
	for i := 0; i < nt && r.err == nil; i++ {
		t := r.str()
		np := int(r.i32())
		for j := 0; j < np && r.err == nil; j++ {
			var fp fetchPart
			fp.topic = t
			fp.partition = r.i32()
			if ver >= 9 {
				r.i32()
			}
			fp.offset = r.i64()
			if ver >= 5 {
				r.i64()
			}
			fp.maxBytes = r.i32()
			f.parts = append(f.parts, fp)
		}
	}
	if ver >= 7 {
		nf := int(r.i32())
		for i := 0; i < nf && r.err == nil; i++ {
			r.str()
			np := int(r.i32())
			for j := 0; j < np; j++ {
				r.i32()
			}
		}
	}
	if ver >= 11 {
		f.rack = r.str()
	}
	if r.err != nil {
		return nil, r.err
	}
	if r.rem() != 0 {
		return nil, fmt.Errorf("%d trailing bytes in fetch request v%d", r.rem(), ver)
	}
	return f, nil
}

// ---- encoding of stored batches (fetch side) ----

func encodeBatchV2(wb *wbatch) []byte {
	var recs wr
	for i := range wb.recs {
		rec := &wb.recs[i]
		var one wr
		one.i8(0)
		one.varint(rec.tsMs - wb.firstTs)
		one.varint(rec.delta)
		one.vbytes(rec.key)
		one.vbytes(rec.val)
		one.varint(int64(len(rec.headers)))
		for _, h := range rec.headers {
			one.vbytes(h.k)
			one.vbytes(h.v)
		}
		recs.varint(int64(len(one.b)))
		recs.raw(one.b)
	}
	payload := compress(wb.codec, recs.b)
	var body wr // from attributes on (CRC covered)
	attrs := int16(wb.codec)
	if wb.logAppend {
		attrs |= 8
	}
	if wb.txn {
		attrs |= 16
	}
	if wb.control {
		attrs |= 32
	}
	body.i16(attrs)
	body.i32(wb.lastDelta)
	body.i64(wb.firstTs)
	body.i64(wb.maxTs)
	body.i64(wb.pid)
	body.i16(wb.epoch)
	body.i32(wb.baseSeq)
	body.i32(int32(len(wb.recs)))
	body.raw(payload)
	var out wr
	out.i64(wb.baseOffset)
	out.i32(int32(4 + 1 + 4 + len(body.b)))
	out.i32(0) // partition leader epoch
	out.i8(2)
	out.i32(int32(crc32.Checksum(body.b, castagnoli)))
	out.raw(body.b)
	return out.b
}

func encodeLegacyMessage(magic int8, offset int64, attrs int8, ts int64, key, val []byte) []byte {
	var m wr
	m.i8(magic)
	m.i8(attrs)
	if magic == 1 {
		m.i64(ts)
	}
	m.bytes32(key)
	m.bytes32(val)
	var out wr
	out.i64(offset)
	out.i32(int32(4 + len(m.b)))
	out.i32(int32(crc32.ChecksumIEEE(m.b)))
	out.raw(m.b)
	return out.b
}

// encodeLegacy encodes one stored legacy entry: a plain message, or a compressed wrapper whose
// inner offsets are relative (magic 1, as brokers >= 0.10 store them) or absolute (magic 0, or
// magic 1 with absInner as written by old producers and kept by the broker).
func encodeLegacy(wb *wbatch, absInner bool) []byte {
	// LogAppendTime (magic 1): timestamp-type bit 3 and the broker's time on the message; for a wrapper the broker
	// stamps the wrapper - the model also rewrites the inner messages (a broker that re-compresses does), so that the
	// expected timestamp does not depend on which of the two a reader consults
	tsAttr := int8(0)
	if wb.logAppend && wb.magic == 1 {
		tsAttr = 8
	}
	if wb.codec == 0 {
		rec := wb.recs[0]
		ts := rec.tsMs
		if tsAttr != 0 {
			ts = wb.maxTs
		}
		return encodeLegacyMessage(wb.magic, wb.baseOffset+rec.delta, tsAttr, ts, rec.key, rec.val)
	}
	var inner wr
	last := wb.recs[len(wb.recs)-1].delta
	for _, rec := range wb.recs {
		off := rec.delta // relative
		if wb.magic == 0 || absInner {
			off = wb.baseOffset + rec.delta
		}
		ts, ia := rec.tsMs, tsAttr
		if tsAttr != 0 {
			ts = wb.maxTs
			if wb.wrapperOnlyTs {
				// in-place stamping (KIP-32: no re-compression): only the wrapper carries the broker's time and
				// the timestamp-type bit, the inner messages keep what the producer wrote; a reader must take the
				// type from the wrapper
				ts, ia = rec.tsMs, 0
			}
		}
		inner.raw(encodeLegacyMessage(wb.magic, off, ia, ts, rec.key, rec.val))
	}
	// wrapper offset = offset of the last inner message
	return encodeLegacyMessage(wb.magic, wb.baseOffset+last, int8(wb.codec)|tsAttr, wb.maxTs, nil, compress(wb.codec, inner.b))
}

package main

import (
	"bytes"
	"fmt"
	"sort"
	"time"

	"github.com/Shopify/sarama"

	"simverif/cf"
)

// Kafka's group coordinator state machine (DESIGN.md Appendix A).

const (
	gEmpty = iota
	gPreparing
	gCompleting
	gStable
)

var gStateNames = []string{"Empty", "PreparingRebalance", "CompletingRebalance", "Stable"}

type mmember struct {
	id           string
	clientID     string
	sessionMs    int32
	rebalanceMs  int32
	protocols    map[string][]byte
	protoOrder   []string
	awaitingJoin *heldResp
	awaitingSync *heldResp
	assignment   []byte
	receivedGen  int32 // generation whose assignment was last served to this member through SyncGroup
	syncConn     *simConn
	syncCorr     int32
	timerGen     int // bumped on every heartbeat-equivalent; session timers carry the value
	joinedGen    int32
}

type heldResp struct {
	c      *simConn
	corr   int32
	ver    int16
	client string
}

type mgroup struct {
	id         string
	state      int
	generation int32
	protocol   string
	leader     string
	members    map[string]*mmember
	order      []string // join order of current members
	rebGen     int      // identifies the pending rebalance timer
	history    []*genRecord
}

// genRecord: what the coordinator knows about one completed generation (oracle input for C07/C08/C13).
type genRecord struct {
	generation  int32
	leader      string
	members     []string
	subs        map[string][]string          // member -> subscribed topics
	userData    map[string][]byte            // member -> user data sent with the join
	assignments map[string]map[string][]int32 // member -> topic -> partitions (leader's plan)
	synced      bool
	partCounts  map[string]int // partitions per topic in the cluster view when the plan arrived
	atUs        int64
	receivedPrev map[string]int32 // member -> generation of the last assignment it had received when it joined this one
}

func (g *groupModel) group(id string) *mgroup {
	mg := g.groups[id]
	if mg == nil {
		mg = &mgroup{id: id, members: map[string]*mmember{}}
		g.groups[id] = mg
	}
	return mg
}

func (g *groupModel) groupTimedFault(f *cf.Fault) bool {
	switch f.Do {
	case "fence-member":
		// the coordinator forgets a member (as after a session expiry it did not see): next request gets UNKNOWN_MEMBER_ID
		for _, mg := range g.groups {
			var ids []string
			for id := range mg.members {
				ids = append(ids, id)
			}
			sort.Strings(ids)
			if len(ids) > 0 {
				id := ids[f.N%len(ids)]
				g.cl.k.logf("fault fence-member %s", id)
				g.removeMember(mg, id, "fenced")
				g.cl.noteFault("fence-member")
			}
		}
		return true
	}
	return false
}

func (g *groupModel) validateCommitIdentity(r *sarama.OffsetCommitRequest) int16 {
	mg := g.groups[r.ConsumerGroup]
	if r.ConsumerGroupGeneration < 0 && r.ConsumerID == "" {
		return 0 // simple consumer commit
	}
	if mg == nil || mg.members[r.ConsumerID] == nil {
		return int16(sarama.ErrUnknownMemberId)
	}
	if r.ConsumerGroupGeneration != mg.generation {
		return int16(sarama.ErrIllegalGeneration)
	}
	if mg.state == gCompleting {
		return int16(sarama.ErrRebalanceInProgress)
	}
	g.touch(mg, mg.members[r.ConsumerID])
	return 0
}

func (g *groupModel) encodeTo(h *heldResp, resp interface{}) {
	out, err := sarama.VerifEncodeResponse(h.corr, resp)
	if err != nil {
		panic(err)
	}
	// held responses are delivered on the member's connection when the group moves on
	g.cl.respondHeld(h.c, out)
}

// serveGroup handles JoinGroup/SyncGroup/Heartbeat/LeaveGroup. A nil byte slice with ok=true means
// "response held".
func (g *groupModel) serveGroup(br *mbroker, c *simConn, h reqHeader, body interface{}, fault *cf.Fault) ([]byte, bool) {
	cl := g.cl
	enc := func(resp interface{}) ([]byte, bool) {
		out, err := sarama.VerifEncodeResponse(h.corr, resp)
		if err != nil {
			panic(err)
		}
		return out, true
	}
	gate := func() sarama.KError {
		if br.id != g.coordinator {
			return sarama.ErrNotCoordinatorForConsumer
		}
		if g.loading {
			return sarama.ErrOffsetsLoadInProgress
		}
		if fault != nil && fault.Do == "errcode" {
			cl.noteFault("group-errcode")
			if (fault.Code == 22 || fault.Code == 25) && g.onVoided != nil {
				// an injected UNKNOWN_MEMBER_ID / ILLEGAL_GENERATION tells the client to forget its identity
				g.onVoided(h.client)
			}
			return sarama.KError(fault.Code)
		}
		return sarama.ErrNoError
	}
	switch r := body.(type) {
	case *sarama.JoinGroupRequest:
		if e := gate(); e != sarama.ErrNoError {
			cl.k.logf("b%d JoinGroup %s member=%q -> err %d", br.id, r.GroupId, r.MemberId, e)
			return enc(&sarama.JoinGroupResponse{Version: r.Version, Err: e, MemberId: r.MemberId})
		}
		mg := g.group(r.GroupId)
		held := &heldResp{c: c, corr: h.corr, ver: r.Version, client: h.client}
		return g.join(mg, r, held, enc)
	case *sarama.SyncGroupRequest:
		if e := gate(); e != sarama.ErrNoError {
			cl.k.logf("b%d SyncGroup %s member=%q -> err %d", br.id, r.GroupId, r.MemberId, e)
			return enc(&sarama.SyncGroupResponse{Err: e})
		}
		mg := g.group(r.GroupId)
		m := mg.members[r.MemberId]
		switch {
		case m == nil:
			if g.onFenced != nil {
				g.onFenced(h.client, c, h.corr)
			}
			cl.k.logf("b%d SyncGroup member=%q -> UNKNOWN_MEMBER_ID", br.id, r.MemberId)
			return enc(&sarama.SyncGroupResponse{Err: sarama.ErrUnknownMemberId})
		case r.GenerationId != mg.generation:
			if g.onFenced != nil {
				g.onFenced(h.client, c, h.corr)
			}
			cl.k.logf("b%d SyncGroup member=%q gen=%d -> ILLEGAL_GENERATION (%d)", br.id, r.MemberId, r.GenerationId, mg.generation)
			return enc(&sarama.SyncGroupResponse{Err: sarama.ErrIllegalGeneration})
		}
		switch mg.state {
		case gEmpty:
			return enc(&sarama.SyncGroupResponse{Err: sarama.ErrUnknownMemberId})
		case gPreparing:
			cl.k.logf("b%d SyncGroup member=%q -> REBALANCE_IN_PROGRESS", br.id, r.MemberId)
			return enc(&sarama.SyncGroupResponse{Err: sarama.ErrRebalanceInProgress})
		case gStable:
			g.touch(mg, m)
			m.receivedGen, m.syncConn, m.syncCorr = mg.generation, c, h.corr
			cl.k.logf("b%d SyncGroup member=%q gen=%d -> stable assignment (%dB)", br.id, r.MemberId, r.GenerationId, len(m.assignment))
			return enc(&sarama.SyncGroupResponse{MemberAssignment: m.assignment})
		}
		// CompletingRebalance
		m.awaitingSync = &heldResp{c: c, corr: h.corr, client: h.client}
		cl.k.logf("b%d SyncGroup member=%q gen=%d leader=%v assignments=%d", br.id, r.MemberId, r.GenerationId, r.MemberId == mg.leader, len(r.GroupAssignments))
		if r.MemberId == mg.leader {
			g.recordPlan(mg, r)
			for id, mm := range mg.members {
				mm.assignment = r.GroupAssignments[id]
			}
			mg.state = gStable
			for _, id := range mg.order {
				mm := mg.members[id]
				if mm != nil && mm.awaitingSync != nil {
					hr := mm.awaitingSync
					mm.awaitingSync = nil
					g.touch(mg, mm)
					mm.receivedGen, mm.syncConn, mm.syncCorr = mg.generation, hr.c, hr.corr
					if hr.c == c && hr.corr == h.corr {
						continue // answered inline below
					}
					g.encodeTo(hr, &sarama.SyncGroupResponse{MemberAssignment: mm.assignment})
				}
			}
			cl.k.logf("group %s generation %d stable", mg.id, mg.generation)
			return enc(&sarama.SyncGroupResponse{MemberAssignment: m.assignment})
		}
		return nil, true // held until the leader's assignment arrives
	case *sarama.HeartbeatRequest:
		if e := gate(); e != sarama.ErrNoError {
			return enc(&sarama.HeartbeatResponse{Err: e})
		}
		mg := g.group(r.GroupId)
		m := mg.members[r.MemberId]
		var e sarama.KError
		switch {
		case m == nil || mg.state == gEmpty:
			e = sarama.ErrUnknownMemberId
		case r.GenerationId != mg.generation:
			e = sarama.ErrIllegalGeneration
		case mg.state == gPreparing || mg.state == gCompleting:
			e = sarama.ErrRebalanceInProgress
			g.touch(mg, m)
		default:
			g.touch(mg, m)
		}
		cl.k.logf("b%d Heartbeat %s member=%q gen=%d -> %d", br.id, r.GroupId, r.MemberId, r.GenerationId, e)
		if g.onHeartbeat != nil {
			g.onHeartbeat(mg, r, e)
		}
		if g.onHeartbeatAns != nil {
			g.onHeartbeatAns(h.client, r, e, c, h.corr)
		}
		return enc(&sarama.HeartbeatResponse{Err: e})
	case *sarama.LeaveGroupRequest:
		if e := gate(); e != sarama.ErrNoError {
			return enc(&sarama.LeaveGroupResponse{Err: e})
		}
		mg := g.group(r.GroupId)
		if mg.members[r.MemberId] == nil {
			cl.k.logf("b%d LeaveGroup member=%q -> UNKNOWN_MEMBER_ID", br.id, r.MemberId)
			return enc(&sarama.LeaveGroupResponse{Err: sarama.ErrUnknownMemberId})
		}
		cl.k.logf("b%d LeaveGroup member=%q", br.id, r.MemberId)
		g.removeMember(mg, r.MemberId, "left")
		return enc(&sarama.LeaveGroupResponse{})
	}
	return nil, false
}

func (g *groupModel) join(mg *mgroup, r *sarama.JoinGroupRequest, held *heldResp, enc func(interface{}) ([]byte, bool)) ([]byte, bool) {
	cl := g.cl
	m := mg.members[r.MemberId]
	if r.MemberId != "" && m == nil {
		if g.onFenced != nil {
			g.onFenced(held.client, held.c, held.corr)
		}
		cl.k.logf("JoinGroup %s member=%q -> UNKNOWN_MEMBER_ID", mg.id, r.MemberId)
		return enc(&sarama.JoinGroupResponse{Version: r.Version, Err: sarama.ErrUnknownMemberId, MemberId: r.MemberId})
	}
	protos := map[string][]byte{}
	var order []string
	for _, p := range r.OrderedGroupProtocols {
		protos[p.Name] = p.Metadata
		order = append(order, p.Name)
	}
	changed := false
	if m == nil {
		g.nMember++
		m = &mmember{id: fmt.Sprintf("sim-member-%d", g.nMember), clientID: held.client}
		mg.members[m.id] = m
		mg.order = append(mg.order, m.id)
		changed = true
		cl.k.logf("JoinGroup %s new member %s (state %s)", mg.id, m.id, gStateNames[mg.state])
	} else {
		if len(protos) != len(m.protocols) {
			changed = true
		}
		for n, b := range protos {
			if !bytes.Equal(m.protocols[n], b) {
				changed = true
			}
		}
		cl.k.logf("JoinGroup %s rejoin %s (state %s, metadata changed=%v)", mg.id, m.id, gStateNames[mg.state], changed)
	}
	m.sessionMs, m.rebalanceMs = r.SessionTimeout, r.RebalanceTimeout
	if r.Version == 0 || m.rebalanceMs <= 0 {
		m.rebalanceMs = r.SessionTimeout
	}
	m.protocols, m.protoOrder = protos, order
	if g.onJoinReq != nil {
		g.onJoinReq(mg, m, r)
	}
	switch mg.state {
	case gStable:
		if !changed && m.id != mg.leader {
			// follower re-joining with unchanged metadata: current generation again
			g.touch(mg, m)
			g.issuedTo(m, held.c, held.corr)
			return enc(g.joinResponse(mg, m, r.Version))
		}
		m.awaitingJoin = held
		g.prepareRebalance(mg)
	case gCompleting:
		if !changed {
			g.touch(mg, m)
			g.issuedTo(m, held.c, held.corr)
			return enc(g.joinResponse(mg, m, r.Version))
		}
		m.awaitingJoin = held
		g.prepareRebalance(mg)
	case gEmpty:
		m.awaitingJoin = held
		g.prepareRebalance(mg)
	case gPreparing:
		if old := m.awaitingJoin; old != nil && (old.c != held.c || old.corr != held.corr) {
			// a newer join of the same member replaces the held one
			_ = old
		}
		m.awaitingJoin = held
	}
	g.maybeCompleteJoin(mg)
	return nil, true
}

// issuedTo tells the scenario on which connection / correlation id a successful JoinGroup answer travels.
func (g *groupModel) issuedTo(m *mmember, c *simConn, corr int32) {
	if g.onIssuedAt != nil {
		g.onIssuedAt(m.clientID, m.id, c, corr)
	}
}

func (g *groupModel) joinResponse(mg *mgroup, m *mmember, ver int16) *sarama.JoinGroupResponse {
	if g.onIssued != nil {
		g.onIssued(m.clientID, m.id, mg.generation)
	}
	res := &sarama.JoinGroupResponse{Version: ver, GenerationId: mg.generation, GroupProtocol: mg.protocol, LeaderId: mg.leader, MemberId: m.id, Members: map[string][]byte{}}
	if m.id == mg.leader {
		for id, mm := range mg.members {
			res.Members[id] = mm.protocols[mg.protocol]
		}
	}
	return res
}

func (g *groupModel) prepareRebalance(mg *mgroup) {
	cl := g.cl
	if mg.state == gPreparing {
		return
	}
	// members that were waiting for the leader's assignment are told to rejoin
	if mg.state == gCompleting {
		for _, id := range mg.order {
			if mm := mg.members[id]; mm != nil && mm.awaitingSync != nil {
				hr := mm.awaitingSync
				mm.awaitingSync = nil
				g.encodeTo(hr, &sarama.SyncGroupResponse{Err: sarama.ErrRebalanceInProgress})
			}
		}
	}
	wasEmpty := mg.state == gEmpty
	mg.state = gPreparing
	mg.rebGen++
	rg := mg.rebGen
	timeout := int32(0)
	for _, mm := range mg.members {
		if mm.rebalanceMs > timeout {
			timeout = mm.rebalanceMs
		}
	}
	d := time.Duration(timeout) * time.Millisecond
	if wasEmpty {
		d = time.Duration(R.c.Config.X["initialRebalanceDelayMs"]) * time.Millisecond
	}
	cl.k.logf("group %s -> PreparingRebalance (timeout %v)", mg.id, d)
	if g.onState != nil {
		g.onState(mg)
	}
	cl.k.after(d, func() {
		if mg.rebGen == rg && mg.state == gPreparing {
			g.completeJoin(mg, true)
		}
	})
}

func (g *groupModel) maybeCompleteJoin(mg *mgroup) {
	if mg.state != gPreparing {
		return
	}
	if mg.generation == 0 && len(mg.history) == 0 && R.c.Config.X["initialRebalanceDelayMs"] > 0 {
		return // first generation waits for the initial delay
	}
	for _, mm := range mg.members {
		if mm.awaitingJoin == nil {
			return
		}
	}
	g.completeJoin(mg, false)
}

func (g *groupModel) completeJoin(mg *mgroup, timedOut bool) {
	cl := g.cl
	if timedOut {
		var gone []string
		for _, id := range mg.order {
			if mm := mg.members[id]; mm != nil && mm.awaitingJoin == nil {
				gone = append(gone, id)
			}
		}
		for _, id := range gone {
			cl.k.logf("group %s: member %s did not rejoin in time, removed", mg.id, id)
			delete(mg.members, id)
			if g.onMemberGone != nil {
				g.onMemberGone(mg, id, "rebalance-timeout")
			}
		}
		mg.order = filterOrder(mg)
	}
	mg.rebGen++
	if len(mg.members) == 0 {
		mg.state = gEmpty
		mg.generation++
		mg.leader = ""
		cl.k.logf("group %s -> Empty (generation %d)", mg.id, mg.generation)
		if g.onState != nil {
			g.onState(mg)
		}
		return
	}
	mg.generation++
	mg.state = gCompleting
	if mg.members[mg.leader] == nil {
		mg.leader = mg.order[0]
	}
	// protocol: the first protocol of the leader that everybody supports
	mg.protocol = ""
	for _, p := range mg.members[mg.leader].protoOrder {
		all := true
		for _, mm := range mg.members {
			if _, ok := mm.protocols[p]; !ok {
				all = false
			}
		}
		if all {
			mg.protocol = p
			break
		}
	}
	rec := &genRecord{generation: mg.generation, leader: mg.leader, subs: map[string][]string{}, userData: map[string][]byte{}, atUs: cl.k.nowUs(), receivedPrev: map[string]int32{}}
	for _, id := range mg.order {
		mm := mg.members[id]
		rec.members = append(rec.members, id)
		// the assignment counts as received only if the response reached a healthy connection
		if mm.syncConn != nil {
			mm.syncConn.mu.Lock()
			if mm.syncConn.deliveredCorr[mm.syncCorr] && !mm.syncConn.sawError {
				rec.receivedPrev[id] = mm.receivedGen
			}
			mm.syncConn.mu.Unlock()
		}
		if md, err := sarama.VerifDecodeMemberMetadata(mm.protocols[mg.protocol]); err == nil {
			rec.subs[id] = append([]string(nil), md.Topics...)
			rec.userData[id] = md.UserData
		}
		mm.assignment = nil
		mm.joinedGen = mg.generation
	}
	mg.history = append(mg.history, rec)
	cl.k.logf("group %s generation %d -> CompletingRebalance leader=%s members=%v protocol=%s", mg.id, mg.generation, mg.leader, rec.members, mg.protocol)
	if g.onState != nil {
		g.onState(mg)
	}
	for _, id := range mg.order {
		mm := mg.members[id]
		hr := mm.awaitingJoin
		mm.awaitingJoin = nil
		g.touch(mg, mm)
		if hr != nil {
			g.issuedTo(mm, hr.c, hr.corr)
			g.encodeTo(hr, g.joinResponse(mg, mm, hr.ver))
		}
	}
}

func filterOrder(mg *mgroup) []string {
	var o []string
	for _, id := range mg.order {
		if mg.members[id] != nil {
			o = append(o, id)
		}
	}
	return o
}

// touch restarts the member's session timer.
func (g *groupModel) touch(mg *mgroup, m *mmember) {
	m.timerGen++
	tg := m.timerGen
	id := m.id
	g.cl.k.after(time.Duration(m.sessionMs)*time.Millisecond, func() {
		mm := mg.members[id]
		if mm != m || mm.timerGen != tg {
			return
		}
		if mm.awaitingJoin != nil || mm.awaitingSync != nil {
			// a member parked in a join/sync is alive; re-arm
			g.touch(mg, mm)
			return
		}
		g.cl.k.logf("group %s: session of %s expired", mg.id, id)
		R.probe("session-expired")
		g.removeMember(mg, id, "session-expired")
	})
}

func (g *groupModel) removeMember(mg *mgroup, id string, why string) {
	m := mg.members[id]
	if m == nil {
		return
	}
	if hr := m.awaitingJoin; hr != nil {
		if g.onFenced != nil {
			g.onFenced(hr.client, hr.c, hr.corr)
		}
		g.encodeTo(hr, &sarama.JoinGroupResponse{Version: hr.ver, Err: sarama.ErrUnknownMemberId, MemberId: id})
	}
	if hr := m.awaitingSync; hr != nil {
		if g.onFenced != nil {
			g.onFenced(hr.client, hr.c, hr.corr)
		}
		g.encodeTo(hr, &sarama.SyncGroupResponse{Err: sarama.ErrUnknownMemberId})
	}
	delete(mg.members, id)
	mg.order = filterOrder(mg)
	if g.onMemberGone != nil {
		g.onMemberGone(mg, id, why)
	}
	switch mg.state {
	case gStable, gCompleting:
		g.prepareRebalance(mg)
		g.maybeCompleteJoin(mg)
	case gPreparing:
		if len(mg.members) == 0 {
			g.completeJoin(mg, false)
		} else {
			g.maybeCompleteJoin(mg)
		}
	}
}

// recordPlan stores the leader's assignment for the generation (oracle input).
func (g *groupModel) recordPlan(mg *mgroup, r *sarama.SyncGroupRequest) {
	if len(mg.history) == 0 {
		return
	}
	rec := mg.history[len(mg.history)-1]
	rec.assignments = map[string]map[string][]int32{}
	rec.partCounts = map[string]int{}
	for _, t := range g.cl.sortedTopics() {
		rec.partCounts[t.name] = len(t.parts)
	}
	for id, b := range r.GroupAssignments {
		a, err := sarama.VerifDecodeAssignment(b)
		if err != nil {
			R.violate("C08.unknown-partition", "assignment of %s in generation %d does not decode: %v", id, mg.generation, err)
			continue
		}
		rec.assignments[id] = a.Topics
	}
	rec.synced = true
	if g.onPlan != nil {
		g.onPlan(mg, rec)
	}
}

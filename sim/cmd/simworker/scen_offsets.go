package main

import (
	"fmt"
	"sort"
	"strings"
	"sync"
	"time"

	"github.com/Shopify/sarama"
	"github.com/anishathalye/porcupine"

	"simverif/cf"
)

func init() { scenarios["offsets"] = scenOffsets }

type pomOp struct {
	kind   string // mark | reset | next
	off    int64
	meta   string
	outOff int64
	outMeta string
	call, ret uint64
	callUs int64
	actor  int
}

type pomState struct {
	key      string
	topic    string
	part     int32
	pom      sarama.PartitionOffsetManager
	ops      []*pomOp
	initOff  int64 // what the coordinator had stored when the POM was created
	initMeta string
	final    *pomOp // NextOffset taken right before shutdown
	asked    map[string]bool // "off|meta" pairs the application marked or reset to
	resets   map[string]uint64 // pair -> earliest invoke stamp of a reset asking for it
	mu       sync.Mutex
}

type offScen struct {
	mu    sync.Mutex
	r     *run
	c     *cf.Case
	cl    *cluster
	gm    *groupModel
	poms  map[string]*pomState
	closeInvokedUs int64
	closeInvokedE  uint64
	closeReturned bool
	closeReturnedUs int64
	closing       bool
	remanaged     int // partitions handed out again right after AsyncClose
	initial       int64
	lastMarkE     uint64
	lastCommitE   uint64
	lastCommitUs  int64
	lastCommitDone bool
	commitsInFlight int
	burst      chan struct{} // closed (and replaced) when an OffsetCommit answer reaches the client
	commitCorr map[*simConn]map[int32]bool
}

func scenOffsets(r *run) {
	c := r.c
	k := r.k
	cl := newCluster(k, c)
	gm := newGroupModel(cl, c)
	cl.group = gm
	cl.extra = gm.serve
	os := &offScen{r: r, c: c, cl: cl, gm: gm, poms: map[string]*pomState{}}
	cfg := baseConfig(c, cl)
	cfg.Consumer.Return.Errors = true
	cfg.Consumer.Offsets.AutoCommit.Enable = c.Config.AutoCommit
	if c.Config.AutoCommitMs > 0 {
		cfg.Consumer.Offsets.AutoCommit.Interval = ms(c.Config.AutoCommitMs)
	}
	cfg.Consumer.Offsets.Retry.Max = c.Config.OffsetsRetryMax
	cfg.Consumer.Offsets.Retention = ms(c.Config.RetentionMs)
	if c.Config.InitialOldest {
		cfg.Consumer.Offsets.Initial = sarama.OffsetOldest
	}
	os.initial = cfg.Consumer.Offsets.Initial
	if err := cfg.Validate(); err != nil {
		r.finish("infra", "generated config invalid: "+err.Error())
	}
	gm.onCommit = os.onCommit
	os.burst = make(chan struct{})
	os.commitCorr = map[*simConn]map[int32]bool{}
	onWireWrite = func(c *simConn, h reqHeader, frame []byte) {
		if h.api == 8 {
			os.commitsInFlight++
			os.mu.Lock()
			if os.commitCorr[c] == nil {
				os.commitCorr[c] = map[int32]bool{}
			}
			os.commitCorr[c][h.corr] = true
			os.mu.Unlock()
		}
	}
	cl.onDeliver = func(c *simConn, corr int32) {
		if os.commitsInFlight > 0 {
			os.commitsInFlight-- // (approximation: any delivered response ends an in-flight commit)
		}
		os.mu.Lock()
		var ch chan struct{}
		if os.commitCorr[c][corr] {
			delete(os.commitCorr[c], corr)
			ch = os.burst
			os.burst = make(chan struct{})
		}
		os.mu.Unlock()
		if ch != nil {
			close(ch)
		}
	}
	// pre-stored offsets
	for i := range c.Workload {
		op := &c.Workload[i]
		if op.Op == "stored" {
			if gm.offsets["g"] == nil {
				gm.offsets["g"] = map[string]*storedOffset{}
			}
			gm.offsets["g"][fmt.Sprintf("%s/%d", op.Topic, op.Partition)] = &storedOffset{op.Offset, op.Arg}
		}
	}
	watchdog(r, os.onHang)
	r.res.Ops = len(c.Workload)
	r.post = os.post

	client, err := sarama.NewClient(cl.seedAddrs(), cfg)
	if err != nil {
		k.logf("NewClient failed: %v", err)
		close(r.stopWatch)
		k.halt()
		return
	}
	om, err := sarama.NewOffsetManagerFromClient("g", client)
	if err != nil {
		k.logf("NewOffsetManager failed: %v", err)
		_ = client.Close()
		close(r.stopWatch)
		k.halt()
		return
	}
	// manage partitions
	var drainWG sync.WaitGroup
	for i := range c.Workload {
		op := &c.Workload[i]
		if op.Op != "manage" {
			continue
		}
		key := fmt.Sprintf("%s/%d", op.Topic, op.Partition)
		before := gm.stored("g", key)
		pom, err := om.ManagePartition(op.Topic, op.Partition)
		if err != nil {
			k.logf("ManagePartition %s failed: %v", key, err)
			continue
		}
		ps := &pomState{key: key, topic: op.Topic, part: op.Partition, pom: pom, initOff: -1, asked: map[string]bool{}, resets: map[string]uint64{}}
		if before != nil {
			ps.initOff, ps.initMeta = before.offset, before.metadata
		}
		os.poms[key] = ps
		// first NextOffset: stored position or the configured initial position
		o, m := pom.NextOffset()
		wantO, wantM := ps.initOff, ps.initMeta
		if wantO < 0 {
			wantO, wantM = os.initial, ""
		}
		if o != wantO || m != wantM {
			r.violate("C06.next-offset-wrong", "%s: NextOffset() = (%d,%q) right after ManagePartition, coordinator had (%d,%q), Offsets.Initial=%d", key, o, m, ps.initOff, ps.initMeta, os.initial)
		}
		drainWG.Add(1)
		go func() {
			defer drainWG.Done()
			for e := range pom.Errors() {
				k.logf("%s error: %v", key, e.Err)
			}
		}()
	}
	byActor := map[int][]*cf.Op{}
	var actors []int
	var closeOp *cf.Op
	for i := range c.Workload {
		op := &c.Workload[i]
		switch op.Op {
		case "mark", "reset", "next", "commit":
			if _, ok := byActor[op.Actor]; !ok {
				actors = append(actors, op.Actor)
			}
			byActor[op.Actor] = append(byActor[op.Actor], op)
		case "close":
			closeOp = op
		}
	}
	sort.Ints(actors)
	var wg sync.WaitGroup
	for _, a := range actors {
		ops := byActor[a]
		wg.Add(1)
		go func() {
			defer wg.Done()
			for _, op := range ops {
				if op.ThinkUs > 0 {
					os.r.nap(time.Duration(op.ThinkUs) * time.Microsecond)
				}
				if (os.closing || os.r.closing()) && op.Op != "commit" {
					continue
				}
				if os.r.closing() {
					continue
				}
				os.doOp(om, op, a)
			}
		}()
	}
	early := closeOp != nil && closeOp.N == 1
	if early {
		os.r.nap(time.Duration(closeOp.ThinkUs) * time.Microsecond)
	} else {
		wg.Wait()
		if !c.Config.AutoCommit {
			// the single committer flushes once more after the last mark
			os.doOp(om, &cf.Op{Op: "commit"}, 9)
		}
		if closeOp != nil && closeOp.ThinkUs > 0 {
			os.r.nap(time.Duration(closeOp.ThinkUs) * time.Microsecond)
		}
	}
	os.closing = true
	if !early {
		for _, ps := range os.sorted() {
			o, m := ps.pom.NextOffset()
			ps.final = &pomOp{kind: "next", outOff: o, outMeta: m}
		}
	}
	os.closeInvokedUs = k.nowUs()
	os.closeInvokedE = k.stamp()
	k.logf("closing: AsyncClose on %d POMs, then OffsetManager.Close()", len(os.poms))
	for _, ps := range os.sorted() {
		ps.pom.AsyncClose()
		if closeOp != nil && closeOp.Arg == "remanage" {
			// the application asks for the partition again at once: whether the manager refuses (the old one is
			// still registered) or hands out a new one, the marks made so far are still owed to the coordinator
			os.r.probe("partition-asked-for-again-right-after-asyncclose")
			if p2, err := om.ManagePartition(ps.topic, ps.part); err == nil {
				os.remanaged++
				drainWG.Add(1)
				go func() {
					defer drainWG.Done()
					for range p2.Errors() {
					}
				}()
				p2.AsyncClose()
			}
		}
	}
	_ = om.Close()
	os.closeReturned = true
	os.closeReturnedUs = k.nowUs()
	k.logf("OffsetManager.Close returned")
	wg.Wait()
	drainWG.Wait()
	// closing again is harmless
	_ = om.Close()
	_ = client.Close()
	os.judge()
	time.Sleep(cfg.Net.DialTimeout + cfg.Net.ReadTimeout + time.Second)
	k.nowUs()
	close(r.stopWatch)
	k.halt()
}

func (os *offScen) sorted() []*pomState {
	var keys []string
	for k := range os.poms {
		keys = append(keys, k)
	}
	sort.Strings(keys)
	var out []*pomState
	for _, k := range keys {
		out = append(out, os.poms[k])
	}
	return out
}

func (os *offScen) doOp(om sarama.OffsetManager, op *cf.Op, actor int) {
	k := os.r.k
	if op.Op == "commit" {
		k.logf("a%d Commit()", actor)
		os.lastCommitE, os.lastCommitUs = k.stamp(), k.nowUs()
		os.lastCommitDone = false
		om.Commit()
		os.lastCommitDone = true
		k.logf("a%d Commit returned", actor)
		return
	}
	ps := os.poms[fmt.Sprintf("%s/%d", op.Topic, op.Partition)]
	if ps == nil {
		return
	}
	if op.Arg == "on-commit-response" {
		// act in the very instant an OffsetCommit answer reaches the client (or after a while if none comes): the
		// application call then interleaves with the manager digesting that answer
		os.mu.Lock()
		ch := os.burst
		os.mu.Unlock()
		t := time.NewTimer(60 * time.Millisecond)
		select {
		case <-ch:
			os.r.probe("mark-or-reset-released-by-commit-response")
		case <-t.C:
		case <-os.r.closeNow:
		}
		t.Stop()
	}
	po := &pomOp{kind: op.Op, off: op.Offset, meta: fmt.Sprintf("md%d", op.ID), actor: actor, callUs: k.nowUs()}
	if os.c.Config.X["sameMeta"] == 1 {
		po.meta = "" // the common real-world usage: no metadata at all
	}
	pair := fmt.Sprintf("%d|%s", po.off, po.meta)
	ps.mu.Lock()
	ps.ops = append(ps.ops, po)
	if op.Op != "next" {
		ps.asked[pair] = true
	}
	ps.mu.Unlock()
	po.call = k.stamp()
	if op.Op == "reset" {
		ps.mu.Lock()
		if _, ok := ps.resets[pair]; !ok {
			ps.resets[pair] = po.call
		}
		ps.mu.Unlock()
	}
	if os.commitsInFlight > 0 && op.Op != "next" {
		os.r.probe("mark-or-reset-while-commit-in-flight")
	}
	switch op.Op {
	case "mark":
		ps.pom.MarkOffset(po.off, po.meta)
	case "reset":
		ps.pom.ResetOffset(po.off, po.meta)
	case "next":
		po.outOff, po.outMeta = ps.pom.NextOffset()
	}
	po.ret = k.stamp()
	os.lastMarkE = po.ret
	k.logf("a%d %s %s (%d,%s) -> (%d,%q)", actor, op.Op, ps.key, po.off, po.meta, po.outOff, po.outMeta)
}

// onCommit: the coordinator received one partition entry of an OffsetCommit (kernel goroutine).
func (os *offScen) onCommit(cr *commitRec) {
	ps := os.poms[cr.key]
	if ps == nil {
		os.r.violate("C06.commit-not-marked", "commit for %s which is not managed", cr.key)
		return
	}
	pair := fmt.Sprintf("%d|%s", cr.offset, cr.metadata)
	ps.mu.Lock()
	asked := ps.asked[pair]
	ps.mu.Unlock()
	if !asked && !(cr.offset == ps.initOff && cr.metadata == ps.initMeta) {
		os.r.violate("C06.commit-not-marked", "%s: coordinator received (%d,%q), which the application never marked or reset to (initial pair (%d,%q))", cr.key, cr.offset, cr.metadata, ps.initOff, ps.initMeta)
	}
}

func (os *offScen) judge() {
	r := os.r
	// (b) accepted commits never move the stored offset backwards unless a reset asked for that pair
	prev := map[string]*commitRec{}
	for _, cr := range os.gm.commits {
		if !cr.accepted {
			continue
		}
		ps := os.poms[cr.key]
		if ps == nil {
			continue
		}
		last := ps.initOff
		if p := prev[cr.key]; p != nil {
			last = p.offset
		}
		if cr.offset < last {
			// legitimate only if some ResetOffset had lowered the position to <= the committed value before
			ok := false
			ps.mu.Lock()
			for _, po := range ps.ops {
				if po.kind == "reset" && po.off <= cr.offset && po.call < cr.e {
					ok = true
				}
			}
			ps.mu.Unlock()
			if !ok {
				r.violate("C06.commit-regressed", "%s: stored offset went from %d back to %d (%q) although no ResetOffset had lowered the position that far before", cr.key, last, cr.offset, cr.metadata)
			}
		}
		prev[cr.key] = cr
	}
	// (d)/(e) no lost mark: after a quiet shutdown the store holds the final position
	// premise of (e): the coordinator accepted the final attempts - no fault was injected, no transport
	// error reached the client and no commit was refused after Close had been invoked
	quiet := os.closeReturned && os.cl.lastFaultUs < os.closeInvokedUs && !os.gm.loading && lastTransportErrUs < os.closeInvokedUs
	// (a refusal by a broker that is no longer the coordinator is not the coordinator refusing: the client is
	// expected to look the coordinator up again, which costs one of the Retry.Max+1 final attempts)
	// ... and the client held a connection to the coordinator that was established before Close was invoked and
	// stayed up until it returned: without one the first final attempt fails inside the client (ErrNotConnected from
	// the cached, closed Broker) and the coordinator never gets to accept it
	os.cl.mu.Lock()
	var cconns []*simConn
	for _, b := range os.cl.brokers {
		if b.id == os.gm.coordinator {
			cconns = append(cconns, b.conns...)
		}
	}
	os.cl.mu.Unlock()
	live := false
	for _, c := range cconns {
		c.mu.Lock()
		up := c.groupAPI && c.dialUs <= os.closeInvokedUs && (c.clientCloseUs == 0 || c.clientCloseUs >= os.closeReturnedUs) && (c.serverCloseUs == 0 || c.serverCloseUs >= os.closeReturnedUs)
		c.mu.Unlock()
		if up {
			live = true
		}
	}
	if !live && os.closeReturned {
		quiet = false
		os.r.probe("final-commit-due-without-a-live-coordinator-connection")
	}
	if os.c.Config.OffsetsRetryMax == 0 {
		// with no retry the single final attempt goes to the Broker object the manager cached; any earlier connection
		// trouble with the coordinator (the client may have replaced that object) makes it fail inside the client
		for _, c := range cconns {
			c.mu.Lock()
			trouble := (c.clientCloseUs > 0 && c.clientCloseUs < os.closeReturnedUs) || (c.serverCloseUs > 0 && c.serverCloseUs < os.closeReturnedUs)
			c.mu.Unlock()
			if trouble && os.closeReturned {
				quiet = false
				os.r.probe("final-commit-due-after-connection-trouble-with-no-retry")
			}
		}
	}
	for _, cr := range os.gm.commits {
		if cr.e > os.closeInvokedE && !cr.accepted {
			if cr.stale && os.c.Config.OffsetsRetryMax >= 1 {
				os.r.probe("final-attempt-refused-by-former-coordinator")
				continue
			}
			quiet = false
		}
	}
	for _, ps := range os.sorted() {
		if ps.final == nil {
			continue
		}
		dirtyEver := len(ps.asked) > 0
		st := os.gm.stored("g", ps.key)
		if os.c.Config.AutoCommit && quiet && dirtyEver && ps.final.outOff >= 0 {
			changed := ps.final.outOff != ps.initOff || ps.final.outMeta != ps.initMeta
			if changed && (st == nil || st.offset != ps.final.outOff || st.metadata != ps.final.outMeta) {
				got := "nothing"
				if st != nil {
					got = fmt.Sprintf("(%d,%q)", st.offset, st.metadata)
				}
				r.violate("C06.close-not-latest", "%s: after Close (auto-commit on, coordinator accepting the final attempts) the store holds %s, the position before Close was (%d,%q)", ps.key, got, ps.final.outOff, ps.final.outMeta)
			}
		}
	}
	// manual commit: a Commit() issued after the last mark, with the coordinator accepting it, stores the final position
	if !os.c.Config.AutoCommit && os.lastCommitDone && os.lastCommitE > os.lastMarkE && os.cl.lastFaultUs < os.lastCommitUs && lastTransportErrUs < os.lastCommitUs && !os.gm.loading {
		refused := false
		for _, cr := range os.gm.commits {
			if cr.e > os.lastCommitE && !cr.accepted {
				refused = true
			}
		}
		for _, ps := range os.sorted() {
			if ps.final == nil || refused || len(ps.asked) == 0 || ps.final.outOff < 0 {
				continue
			}
			st := os.gm.stored("g", ps.key)
			changed := ps.final.outOff != ps.initOff || ps.final.outMeta != ps.initMeta
			if changed && (st == nil || st.offset != ps.final.outOff || st.metadata != ps.final.outMeta) {
				got := "nothing"
				if st != nil {
					got = fmt.Sprintf("(%d,%q)", st.offset, st.metadata)
				}
				r.violate("C06.lost-mark", "%s: a Commit() issued after the last mark was accepted by the coordinator, yet the store holds %s and the position is (%d,%q)", ps.key, got, ps.final.outOff, ps.final.outMeta)
			}
		}
	}
	nf := 0
	for _, n := range r.faults {
		nf += n
	}
	r.res.Nontrivial = nf > 0 || len(os.gm.commits) > 1
}

func (os *offScen) onHang(dump string) {
	frames := blockedSaramaFrames(dump)
	os.r.violate("C12.close-hang", "offset manager scenario did not finish (close invoked=%v); parked: %v", os.closing, frames)
	if os.c.Property != "C12" {
		os.r.violate(propRule("hang"), "offset manager scenario did not finish (close invoked=%v); parked: %v", os.closing, frames)
	}
}

// post: Mark/Reset/NextOffset on one partition form a linearizable register history.
func (os *offScen) post() {
	if os.c.Property == "C12" {
		return // shutdown runs are judged by the C12 rules only; the linearizability check belongs to C15/C06
	}
	type in struct {
		kind string
		off  int64
		meta string
	}
	type st struct {
		off  int64
		meta string
	}
	initial := os.initial
	for _, ps := range os.sorted() {
		if len(ps.ops) == 0 {
			continue
		}
		var ops []porcupine.Operation
		for _, po := range ps.ops {
			if po.ret == 0 {
				continue
			}
			ops = append(ops, porcupine.Operation{ClientId: po.actor, Input: in{po.kind, po.off, po.meta}, Call: int64(po.call), Output: st{po.outOff, po.outMeta}, Return: int64(po.ret)})
		}
		if ps.final != nil {
			ops = append(ops, porcupine.Operation{ClientId: 99, Input: in{"next", 0, ""}, Call: int64(os.closeInvokedE) - 1, Output: st{ps.final.outOff, ps.final.outMeta}, Return: int64(os.closeInvokedE)})
		}
		init := st{ps.initOff, ps.initMeta}
		model := porcupine.Model{
			Init: func() interface{} { return init },
			Step: func(state, input, output interface{}) (bool, interface{}) {
				s := state.(st)
				i := input.(in)
				switch i.kind {
				case "mark":
					if i.off > s.off {
						return true, st{i.off, i.meta}
					}
					return true, s
				case "reset":
					if i.off <= s.off {
						return true, st{i.off, i.meta}
					}
					return true, s
				}
				o := output.(st)
				if s.off >= 0 {
					return o == s, s
				}
				return o.off == initial && o.meta == "", s
			},
			DescribeOperation: func(input, output interface{}) string {
				i := input.(in)
				o := output.(st)
				if i.kind == "next" {
					return fmt.Sprintf("next -> (%d,%q)", o.off, o.meta)
				}
				return fmt.Sprintf("%s(%d,%s)", i.kind, i.off, i.meta)
			},
		}
		res := porcupine.CheckOperationsTimeout(model, ops, 20*time.Second)
		switch res {
		case porcupine.Illegal:
			var lines []string
			for _, o := range ops {
				lines = append(lines, fmt.Sprintf("[%d,%d] c%d %s", o.Call, o.Return, o.ClientId, model.DescribeOperation(o.Input, o.Output)))
			}
			os.r.violate("C06.pom-not-linearizable", "%s: Mark/Reset/NextOffset results are not a linearizable history of a max-on-mark/min-on-reset register (initial (%d,%q)):\n%s", ps.key, ps.initOff, ps.initMeta, strings.Join(lines, "\n"))
		case porcupine.Unknown:
			os.r.inconclusive = "porcupine timed out"
		}
		os.r.probes["porcupine-ops"] += len(ops)
	}
}

package main

import (
	"context"
	"fmt"
	"sort"
	"strings"
	"sync"
	"time"

	"github.com/Shopify/sarama"

	"simverif/cf"
)

func init() { scenarios["group"] = scenGroup }

type sessRec struct {
	member     int
	n          int
	memberID   string
	generation int32
	claims     map[string][]int32
	setupE, cleanupE, returnE uint64
	setupUs, cleanupUs, returnUs int64
	setups, cleanups int
	claimStart map[string]uint64
	claimEnd   map[string]uint64
	claimStarts map[string]int
	openClaims int
	cancelled  bool // the application cancelled/closed while this session ran
	ctxDoneAtSetup bool
	ctxDoneUs  int64 // when the session context ended (0 = not seen)
	lastMarked map[string]int64 // partition -> offset last marked by the handler in this session
	// model state when Consume returned (judged at the end, when late error reports are known)
	snapFaultUs, snapTransportUs int64
	snapLoading, snapMember bool
	snapGen int32
	snapCommits int
}

type gmember struct {
	idx      int
	op       *cf.Op
	topics   []string // current subscription when the application changed it (nil: op.Args)
	group    sarama.ConsumerGroup
	dial     *dialer
	cfg      *sarama.Config
	mu       sync.Mutex
	sessions []*sessRec
	cur      *sessRec
	ctx      context.Context
	cancel   context.CancelFunc
	closing  bool
	closed   bool
	consumeActive bool
	consumeInvokeUs int64
	endRequestedUs int64 // when cancel/close was asked (0 = not)
	crashed  bool
	loopDone chan struct{}
	closeInFlight bool
	errTimes []int64 // times of every error surfaced on Errors()
	notConnectedErrs []int64 // times at which "broker not connected" surfaced on Errors()
}

type groupScen struct {
	metaServed map[int][]metaServed // member index+1 -> metadata responses served to its client
	r       *run
	c       *cf.Case
	cl      *cluster
	gm      *groupModel
	fm      *fetchModel
	members []*gmember
	mu      sync.Mutex
	// per partition: highest offset delivered to any handler, per-claim first deliveries
	maxDelivered map[string]int64
	issuedIDs   map[string]map[string]bool          // client -> member ids issued
	issuedGens  map[string]map[string]map[int32]bool // client -> member id -> generations joined
	mustBeFresh map[string]*fenceMark               // client -> next join must carry an empty member id (if the fencing response arrived)
	lastIssued  map[string]*issuedMark              // client -> the member id its last successful JoinGroup answer carried
	fetchAnswered map[string]map[string]int64       // client -> partition -> offset answered by OffsetFetch
	initial     int64
	strategy    string
	faultFree   bool
	countsEver  map[string][]int // topic -> partition counts it has had
	countsAt    map[string][]int64 // ... and since when (us)
	lastPlanOwner map[string]string
	hbFences    []*hbFence
	abandoned   bool // a crashed member's goroutines are left behind: the run ends by exiting the process
}

// hbFence: a heartbeat the coordinator answered with REBALANCE_IN_PROGRESS / UNKNOWN_MEMBER_ID / ILLEGAL_GENERATION.
type hbFence struct {
	client, member string
	gen            int32
	err            sarama.KError
	c              *simConn
	corr           int32
}

type fenceMark struct {
	c    *simConn
	corr int32
}

type ghandler struct {
	gs *groupScen
	m  *gmember
}

func (h *ghandler) Setup(s sarama.ConsumerGroupSession) error {
	gs, m := h.gs, h.m
	k := gs.r.k
	m.mu.Lock()
	sr := &sessRec{member: m.idx, n: len(m.sessions), memberID: s.MemberID(), generation: s.GenerationID(), claims: s.Claims(), claimStart: map[string]uint64{}, claimEnd: map[string]uint64{}, claimStarts: map[string]int{}, lastMarked: map[string]int64{}}
	m.sessions = append(m.sessions, sr)
	if m.cur != nil && m.cur.cleanups == 0 && m.cur.setups > 0 {
		gs.r.violate("C07.lifecycle-order", "member %d: Setup of a new session before Cleanup of the previous one", m.idx)
	}
	m.cur = sr
	m.mu.Unlock()
	sr.setups++
	sr.setupE, sr.setupUs = k.stamp(), k.nowUs()
	select {
	case <-s.Context().Done():
		sr.ctxDoneAtSetup = true
	default:
	}
	go func() {
		<-s.Context().Done()
		sr.ctxDoneUs = k.nowUs()
	}()
	k.logf("m%d Setup member=%s gen=%d claims=%v", m.idx, sr.memberID, sr.generation, fmtClaims(sr.claims))
	gs.r.probe("session-started")
	return nil
}

func fmtClaims(c map[string][]int32) string {
	var ts []string
	for t := range c {
		ts = append(ts, t)
	}
	sort.Strings(ts)
	var out []string
	for _, t := range ts {
		out = append(out, fmt.Sprintf("%s%v", t, c[t]))
	}
	return strings.Join(out, " ")
}

func (h *ghandler) Cleanup(s sarama.ConsumerGroupSession) error {
	gs, m := h.gs, h.m
	k := gs.r.k
	sr := m.cur
	if sr == nil {
		gs.r.violate("C07.lifecycle-order", "member %d: Cleanup without Setup", m.idx)
		return nil
	}
	sr.cleanups++
	sr.cleanupE, sr.cleanupUs = k.stamp(), k.nowUs()
	if sr.cleanups > 1 {
		gs.r.violate("C07.lifecycle-order", "member %d session %d: Cleanup called %d times", m.idx, sr.n, sr.cleanups)
	}
	if sr.openClaims != 0 {
		gs.r.violate("C07.lifecycle-order", "member %d session %d: Cleanup while %d ConsumeClaim calls are still running", m.idx, sr.n, sr.openClaims)
	}
	k.logf("m%d Cleanup gen=%d", m.idx, sr.generation)
	return nil
}

func (h *ghandler) ConsumeClaim(s sarama.ConsumerGroupSession, claim sarama.ConsumerGroupClaim) error {
	gs, m := h.gs, h.m
	k := gs.r.k
	sr := m.cur
	key := fmt.Sprintf("%s/%d", claim.Topic(), claim.Partition())
	if sr == nil || sr.setups == 0 {
		gs.r.violate("C07.lifecycle-order", "member %d: ConsumeClaim(%s) before Setup", m.idx, key)
		return nil
	}
	if sr.cleanups > 0 {
		gs.r.violate("C07.lifecycle-order", "member %d session %d: ConsumeClaim(%s) started after Cleanup", m.idx, sr.n, key)
	}
	m.mu.Lock()
	sr.claimStarts[key]++
	n := sr.claimStarts[key]
	sr.openClaims++
	sr.claimStart[key] = k.stamp()
	m.mu.Unlock()
	if n > 1 {
		gs.r.violate("C07.claim-count", "member %d session %d: ConsumeClaim called %d times for %s", m.idx, sr.n, n, key)
	}
	assigned := false
	for _, p := range sr.claims[claim.Topic()] {
		if p == claim.Partition() {
			assigned = true
		}
	}
	if !assigned {
		gs.r.violate("C07.claim-count", "member %d session %d: ConsumeClaim for %s which is not among the session's claims %v", m.idx, sr.n, key, fmtClaims(sr.claims))
	}
	// claim start offset = what the coordinator answered (or the configured initial position)
	gs.checkClaimStart(m, sr, claim, key)
	k.logf("m%d ConsumeClaim %s initial=%d", m.idx, key, claim.InitialOffset())
	defer func() {
		m.mu.Lock()
		sr.openClaims--
		sr.claimEnd[key] = k.stamp()
		m.mu.Unlock()
		k.logf("m%d ConsumeClaim %s returned", m.idx, key)
	}()
	behaviour := m.op.Arg
	markEvery, earlyAfter := opInt(m.op, 0, 1), opInt(m.op, 1, 3)
	paceUs := opInt(m.op, 2, 0)
	if behaviour == "block" {
		<-s.Context().Done()
		return nil
	}
	count := 0
	first := true
	mp := gs.cl.part(claim.Topic(), claim.Partition())
	for msg := range claim.Messages() {
		count++
		gs.onDelivered(m, sr, claim, mp, key, msg, first)
		first = false
		if markEvery > 0 && count%markEvery == 0 {
			s.MarkMessage(msg, "")
			m.mu.Lock()
			sr.lastMarked[key] = msg.Offset + 1
			m.mu.Unlock()
		}
		if behaviour == "early" && count >= earlyAfter {
			gs.r.probe("handler-returned-early")
			return nil
		}
		if paceUs > 0 {
			gs.r.nap(time.Duration(paceUs) * time.Microsecond)
		}
	}
	return nil
}

func (gs *groupScen) checkClaimStart(m *gmember, sr *sessRec, claim sarama.ConsumerGroupClaim, key string) {
	gs.mu.Lock()
	ans, ok := gs.fetchAnswered[m.cfg.ClientID][key]
	gs.mu.Unlock()
	if !ok {
		return
	}
	mp := gs.cl.part(claim.Topic(), claim.Partition())
	got := claim.InitialOffset()
	want := ans
	if ans < 0 {
		want = gs.initial
	}
	if got == want {
		return
	}
	// out-of-range committed offsets fall back to the configured initial position
	if got == gs.initial && mp != nil && (ans < mp.logStart || ans > mp.leo) {
		gs.r.probe("committed-offset-out-of-range-fallback")
		return
	}
	gs.r.violate("C07.claim-start-offset", "member %d gen %d: claim %s starts at %d, the coordinator had answered %d for the group (Offsets.Initial=%d, log [%d,%d])", m.idx, sr.generation, key, got, ans, gs.initial, mp.logStart, mp.leo)
}

func (gs *groupScen) onDelivered(m *gmember, sr *sessRec, claim sarama.ConsumerGroupClaim, mp *mpart, key string, msg *sarama.ConsumerMessage, first bool) {
	gs.mu.Lock()
	defer gs.mu.Unlock()
	if first {
		// first record of a claim: the first visible record at or after the claim's start
		start := claim.InitialOffset()
		if start >= 0 {
			var want *mrec
			for _, b := range mp.batches {
				for _, r := range b.recs {
					if r.offset >= start && want == nil && !b.wb.control {
						want = r
					}
				}
			}
			if want != nil && msg.Offset != want.offset {
				gs.r.violate("C07.skipped-record", "member %d gen %d: claim %s started at %d but the first delivered record is @%d, the log's next record is @%d", m.idx, sr.generation, key, start, msg.Offset, want.offset)
			}
		}
		if start >= 0 {
			if md, ok := gs.maxDelivered[key]; ok && start > md+1 {
				gs.r.violate("C07.skipped-record", "claim %s resumes at %d but only offsets up to %d were ever delivered to a handler: records in between are skipped", key, start, md)
			}
		}
	}
	if md, ok := gs.maxDelivered[key]; !ok || msg.Offset > md {
		gs.maxDelivered[key] = msg.Offset
	}
}

func stratOf(name string) sarama.BalanceStrategy {
	switch name {
	case "roundrobin":
		return sarama.BalanceStrategyRoundRobin
	case "sticky":
		return sarama.BalanceStrategySticky
	}
	return sarama.BalanceStrategyRange
}

func scenGroup(r *run) {
	c := r.c
	k := r.k
	cl := newCluster(k, c)
	gm := newGroupModel(cl, c)
	fm := newFetchModel(cl, c.Net.Seed^0x6702)
	cl.group, cl.fetch = gm, fm
	fm.loadLogs(c)
	cl.extra = gm.serve
	gs := &groupScen{r: r, c: c, cl: cl, gm: gm, fm: fm, maxDelivered: map[string]int64{}, issuedIDs: map[string]map[string]bool{}, issuedGens: map[string]map[string]map[int32]bool{}, mustBeFresh: map[string]*fenceMark{}, lastIssued: map[string]*issuedMark{}, fetchAnswered: map[string]map[string]int64{}, strategy: c.Config.Strategy}
	gs.initial = sarama.OffsetNewest
	if c.Config.InitialOldest {
		gs.initial = sarama.OffsetOldest
	}
	gs.countsEver = map[string][]int{}
	gs.countsAt = map[string][]int64{}
	for _, t := range cl.sortedTopics() {
		gs.countsEver[t.name] = []int{len(t.parts)}
		gs.countsAt[t.name] = []int64{0}
	}
	cl.onView = func() {
		for _, t := range cl.sortedTopics() {
			cs := gs.countsEver[t.name]
			if len(cs) == 0 || cs[len(cs)-1] != len(t.parts) {
				gs.countsEver[t.name] = append(cs, len(t.parts))
				gs.countsAt[t.name] = append(gs.countsAt[t.name], k.nowUs())
			}
		}
	}
	gs.wireModelHooks()
	watchdog(r, gs.onHang)
	r.res.Ops = len(c.Workload)

	for i := range c.Workload {
		op := &c.Workload[i]
		if op.Op != "member" {
			continue
		}
		m := &gmember{idx: op.Actor, op: op, loopDone: make(chan struct{})}
		gs.members = append(gs.members, m)
	}
	var wg sync.WaitGroup
	for _, m := range gs.members {
		m := m
		wg.Add(1)
		go func() {
			defer wg.Done()
			gs.runMember(m)
		}()
	}
	// scripted application events
	for i := range c.Workload {
		op := &c.Workload[i]
		switch op.Op {
		case "cancel", "closegroup", "crash", "resub":
			m := gs.memberByIdx(op.Actor)
			if m == nil {
				continue
			}
			wg.Add(1)
			go func() {
				defer wg.Done()
				gs.r.nap(time.Duration(op.ThinkUs) * time.Microsecond)
				if op.Op == "resub" {
					// the application changes its subscription: it ends the running Consume call and calls
					// Consume again with another topic list
					m.mu.Lock()
					m.topics = op.Args
					m.mu.Unlock()
					gs.r.probe("subscription-changed")
					gs.appEvent(m, "cancel")
					return
				}
				gs.appEvent(m, op.Op)
			}()
		}
	}
	// end of run: close every member that is still open
	endAt := int64(0)
	for i := range c.Workload {
		if c.Workload[i].Op == "end" {
			endAt = c.Workload[i].ThinkUs
		}
	}
	gs.r.nap(time.Duration(endAt) * time.Microsecond)
	for _, m := range gs.members {
		gs.appEvent(m, "closegroup")
	}
	if gs.abandoned {
		// wait for everybody but the crashed members
		for _, m := range gs.members {
			m.mu.Lock()
			crashed := m.crashed
			m.mu.Unlock()
			if !crashed {
				<-m.loopDone
			}
		}
		gs.judge()
		k.nowUs()
		r.finish("ok", "crashed member left behind")
	}
	wg.Wait()
	gs.judge()
	time.Sleep(2 * time.Second)
	k.nowUs()
	close(r.stopWatch)
	k.halt()
}

func (gs *groupScen) memberByIdx(i int) *gmember {
	for _, m := range gs.members {
		if m.idx == i {
			return m
		}
	}
	return nil
}

func (gs *groupScen) memberConfig(m *gmember) *sarama.Config {
	c := gs.c
	cfg := baseConfig(c, gs.cl)
	m.dial = &dialer{cl: gs.cl, owner: m.idx + 1}
	cfg.Net.Proxy.Dialer = m.dial
	cfg.ClientID = fmt.Sprintf("member%d", m.idx)
	cfg.Consumer.Return.Errors = true
	cfg.Consumer.Offsets.AutoCommit.Enable = true
	if c.Config.AutoCommitMs > 0 {
		cfg.Consumer.Offsets.AutoCommit.Interval = ms(c.Config.AutoCommitMs)
	}
	cfg.Consumer.Offsets.Retry.Max = c.Config.OffsetsRetryMax
	cfg.Consumer.Offsets.Initial = gs.initial
	cfg.Consumer.Group.Rebalance.Strategy = stratOf(c.Config.Strategy)
	cfg.Consumer.Group.Session.Timeout = ms(c.Config.SessionMs)
	cfg.Consumer.Group.Heartbeat.Interval = ms(c.Config.HeartbeatMs)
	cfg.Consumer.Group.Rebalance.Timeout = ms(c.Config.RebalanceMs)
	cfg.Consumer.Group.Rebalance.Retry.Max = c.Config.RebRetryMax
	cfg.Consumer.Group.Rebalance.Retry.Backoff = ms(c.Config.RebBackoffMs)
	cfg.Consumer.MaxWaitTime = ms(c.Config.MaxWaitMs)
	cfg.Consumer.Retry.Backoff = ms(c.Config.ConsBackoffMs)
	if c.Config.FetchDefault > 0 {
		cfg.Consumer.Fetch.Default = int32(c.Config.FetchDefault)
	}
	if c.Config.MaxProcessingMs > 0 {
		cfg.Consumer.MaxProcessingTime = ms(c.Config.MaxProcessingMs)
	}
	return cfg
}

func (gs *groupScen) runMember(m *gmember) {
	k := gs.r.k
	defer close(m.loopDone)
	if m.op.ThinkUs > 0 {
		gs.r.nap(time.Duration(m.op.ThinkUs) * time.Microsecond)
	}
	m.mu.Lock()
	if m.closing || gs.r.closing() {
		// shut down before it ever started
		m.closing, m.closed = true, true
		m.mu.Unlock()
		return
	}
	m.mu.Unlock()
	m.cfg = gs.memberConfig(m)
	if err := m.cfg.Validate(); err != nil {
		gs.r.finish("infra", "generated config invalid: "+err.Error())
	}
	g, err := sarama.NewConsumerGroup(gs.cl.seedAddrs(), "g", m.cfg)
	if err != nil {
		k.logf("m%d NewConsumerGroup failed: %v", m.idx, err)
		m.mu.Lock()
		m.closed = true
		m.mu.Unlock()
		return
	}
	m.mu.Lock()
	m.group = g
	m.ctx, m.cancel = context.WithCancel(context.Background())
	m.mu.Unlock()
	go func() {
		for e := range g.Errors() {
			k.logf("m%d group error: %v", m.idx, e)
			m.mu.Lock()
			m.errTimes = append(m.errTimes, k.nowUs())
			m.mu.Unlock()
			if strings.Contains(e.Error(), "broker not connected") {
				m.mu.Lock()
				m.notConnectedErrs = append(m.notConnectedErrs, k.nowUs())
				m.mu.Unlock()
			}
		}
	}()
	h := &ghandler{gs: gs, m: m}
	for {
		m.mu.Lock()
		if m.closing {
			m.mu.Unlock()
			return
		}
		ctx := m.ctx
		m.consumeActive = true
		m.consumeInvokeUs = k.nowUs()
		before := len(m.sessions)
		m.mu.Unlock()
		m.mu.Lock()
		topics := m.op.Args
		if m.topics != nil {
			topics = m.topics
		}
		m.mu.Unlock()
		k.logf("m%d Consume(%v)", m.idx, topics)
		err := g.Consume(ctx, topics, h)
		m.mu.Lock()
		m.consumeActive = false
		var sr *sessRec
		if len(m.sessions) > before {
			sr = m.sessions[len(m.sessions)-1]
		}
		m.endRequestedUs = 0
		m.mu.Unlock()
		k.logf("m%d Consume returned: %v", m.idx, err)
		if sr != nil {
			sr.returnE, sr.returnUs = k.stamp(), k.nowUs()
			if sr.setups > 0 && sr.cleanups == 0 {
				gs.r.violate("C07.lifecycle-order", "member %d session %d (gen %d): Consume returned without Cleanup although Setup had run", m.idx, sr.n, sr.generation)
			}
			sr.snapFaultUs, sr.snapTransportUs, sr.snapLoading = gs.cl.lastFaultUs, lastTransportErrUs, gs.gm.loading
			if mg := gs.gm.groups["g"]; mg != nil {
				sr.snapGen, sr.snapMember = mg.generation, mg.members[sr.memberID] != nil
			}
			sr.snapCommits = len(gs.gm.commits)
		}
		if err == sarama.ErrClosedConsumerGroup {
			return
		}
		m.mu.Lock()
		if ctx.Err() != nil && !m.closing {
			// cancelled by the application: start over with a fresh context
			m.ctx, m.cancel = context.WithCancel(context.Background())
		}
		m.mu.Unlock()
		time.Sleep(time.Duration(1+m.idx) * time.Millisecond)
	}
}

func (gs *groupScen) appEvent(m *gmember, what string) {
	k := gs.r.k
	m.mu.Lock()
	g := m.group
	if g == nil || m.closed {
		m.closing = true
		m.mu.Unlock()
		return
	}
	switch what {
	case "cancel":
		if m.closing {
			m.mu.Unlock()
			return
		}
		k.logf("m%d app cancels the context", m.idx)
		if m.cur != nil {
			m.cur.cancelled = true
		}
		m.endRequestedUs = k.nowUs()
		cancel := m.cancel
		m.mu.Unlock()
		cancel()
	case "crash":
		if m.closing || m.crashed {
			m.mu.Unlock()
			return
		}
		m.crashed = true
		m.mu.Unlock()
		k.logf("m%d crashes (connections cut for good)", m.idx)
		gs.cl.noteFault("member-crash")
		gs.cl.mu.Lock()
		m.dial.crashed = true
		conns := append([]*simConn(nil), m.dial.conns...)
		gs.cl.mu.Unlock()
		for _, c := range conns {
			c.mu.Lock()
			c.stall = true // nothing gets out
			c.mu.Unlock()
			c.serverSilence()
		}
	case "closegroup":
		if m.closing {
			m.mu.Unlock()
			<-m.loopDone
			return
		}
		m.closing = true
		if m.cur != nil {
			m.cur.cancelled = true
		}
		m.endRequestedUs = k.nowUs()
		crashed := m.crashed
		m.mu.Unlock()
		k.logf("m%d app calls Close()", m.idx)
		if crashed && gs.c.Property != "C12" {
			// a cut-off host: its shutdown is C12's business (and may not end while it stays cut off);
			// the process is simply gone for the rest of the group
			gs.abandoned = true
			go func() { _ = g.Close() }()
			m.mu.Lock()
			m.closed = true
			m.mu.Unlock()
			return
		}
		m.mu.Lock()
		m.closeInFlight = true
		m.mu.Unlock()
		err := g.Close()
		m.mu.Lock()
		m.closeInFlight = false
		m.mu.Unlock()
		k.logf("m%d Close returned: %v", m.idx, err)
		<-m.loopDone
		// closing twice is harmless
		_ = g.Close()
		m.mu.Lock()
		m.closed = true
		m.mu.Unlock()
	}
}

// checkFinalCommit: with auto-commit on, once Consume has returned the marked offsets of the
// session are committed (when the coordinator accepted the final attempts).
func (gs *groupScen) checkFinalCommit(m *gmember, sr *sessRec) {
	if sr.cleanupUs == 0 || sr.returnUs == 0 || len(sr.lastMarked) == 0 {
		return
	}
	// premise: the coordinator accepted the final attempts - nothing was injected, no transport error reached
	// the client and no error was reported to the application between Cleanup and the return of Consume,
	// none of this member's commits was refused, and the member still belonged to the generation
	if sr.snapFaultUs >= sr.cleanupUs || sr.snapTransportUs >= sr.cleanupUs || sr.snapLoading || m.crashed {
		return
	}
	for _, t := range m.errTimes {
		if t >= sr.cleanupUs-1000 && t <= sr.returnUs+1000 {
			return
		}
	}
	if sr.snapGen != sr.generation || !sr.snapMember {
		return
	}
	// ... and the member held a connection to the coordinator that was established before Cleanup and stayed up
	// until Consume returned: without one the final attempt fails inside the client (ErrNotConnected from the
	// cached, closed Broker - e.g. after a reset shortly before, or when a late Broker.Close issued for an earlier
	// failure hits the re-opened connection) and the coordinator never gets to accept it
	gs.cl.mu.Lock()
	conns := append([]*simConn(nil), m.dial.conns...)
	gs.cl.mu.Unlock()
	live := false
	for _, c := range conns {
		c.mu.Lock()
		up := c.groupAPI && c.br != nil && c.br.id == gs.gm.coordinator && c.dialUs <= sr.cleanupUs &&
			(c.clientCloseUs == 0 || c.clientCloseUs > sr.returnUs) && (c.serverCloseUs == 0 || c.serverCloseUs > sr.returnUs)
		c.mu.Unlock()
		if up {
			live = true
		}
	}
	if !live {
		gs.r.probe("final-commit-due-without-a-live-coordinator-connection")
		return
	}
	if gs.c.Config.OffsetsRetryMax == 0 {
		// With no retry the single final attempt goes to the Broker object the session's offset manager cached when
		// the session began; connection trouble at any time since (the client may have replaced that object in its
		// registry) makes the attempt fail inside the client. The obligation then needs a trouble-free session.
		since := int64(0)
		if sr.n > 0 && sr.n-1 < len(m.sessions) {
			since = m.sessions[sr.n-1].returnUs
		}
		for _, c := range conns {
			c.mu.Lock()
			trouble := c.br != nil && c.br.id == gs.gm.coordinator &&
				((c.clientCloseUs >= since && c.clientCloseUs > 0 && c.clientCloseUs <= sr.returnUs) || (c.serverCloseUs >= since && c.serverCloseUs > 0 && c.serverCloseUs <= sr.returnUs))
			c.mu.Unlock()
			if trouble {
				gs.r.probe("final-commit-due-after-connection-trouble-with-no-retry")
				return
			}
		}
	}
	latest := map[string]*commitRec{}
	for _, cr := range gs.gm.commits[:sr.snapCommits] {
		if cr.member != sr.memberID {
			continue
		}
		if cr.e > sr.cleanupE && !cr.accepted {
			if cr.stale && gs.c.Config.OffsetsRetryMax >= 1 {
				// refused by a former coordinator: costs one of the Retry.Max+1 final attempts
				gs.r.probe("final-attempt-refused-by-former-coordinator")
				continue
			}
			return
		}
		if cr.accepted {
			latest[cr.key] = cr
		}
	}
	var keys []string
	for k := range sr.lastMarked {
		keys = append(keys, k)
	}
	sort.Strings(keys)
	for _, key := range keys {
		want := sr.lastMarked[key]
		cr := latest[key]
		if cr == nil || cr.offset < want {
			got := "nothing"
			if cr != nil {
				got = fmt.Sprint(cr.offset)
			}
			gs.r.violate("C07.lifecycle-order", "member %d session %d (gen %d): Consume returned but the final commit is missing: handler marked %s up to %d, the coordinator has %s from this member (auto-commit on, coordinator accepting)", m.idx, sr.n, sr.generation, key, want, got)
		}
	}
}

// metaServed: one metadata response served to a member's client (it may be applied long after it was computed:
// responses of different connections overtake one another).
// issuedMark: the identity a client holds after a successful JoinGroup answer, until it is fenced or leaves.
type issuedMark struct {
	member string
	c      *simConn
	corr   int32
	void   bool // a fencing answer was produced for the client, or it sent LeaveGroup, since
}

type metaServed struct {
	serveUs int64
	conn    *simConn
	corr    int32
}

func (gs *groupScen) wireModelHooks() {
	gm := gs.gm
	gs.cl.onMetadata = func(br *mbroker, c *simConn, corr int32, req *sarama.MetadataRequest, m *sarama.MetadataResponse) {
		if c.owner > 0 {
			if gs.metaServed == nil {
				gs.metaServed = map[int][]metaServed{}
			}
			gs.metaServed[c.owner] = append(gs.metaServed[c.owner], metaServed{serveUs: gs.r.k.nowUs(), conn: c, corr: corr})
		}
	}
	note := func(client, member string, gen int32) {
		if gs.issuedIDs[client] == nil {
			gs.issuedIDs[client] = map[string]bool{}
			gs.issuedGens[client] = map[string]map[int32]bool{}
		}
		gs.issuedIDs[client][member] = true
		if gs.issuedGens[client][member] == nil {
			gs.issuedGens[client][member] = map[int32]bool{}
		}
		gs.issuedGens[client][member][gen] = true
	}
	gs.cl.onRequest = func(c *simConn, h reqHeader, body interface{}, fault *cf.Fault) {
		client := h.client
		check := func(api, member string, gen int32, needGen bool) {
			if member == "" {
				return
			}
			if !gs.issuedIDs[client][member] {
				gs.r.violate("C07.stale-identity", "%s from %s carries member id %q, which the coordinator never issued to it", api, client, member)
				return
			}
			if needGen && !gs.issuedGens[client][member][gen] {
				gs.r.violate("C07.stale-identity", "%s from %s carries generation %d for member %q, which it never joined", api, client, gen, member)
			}
		}
		switch r := body.(type) {
		case *sarama.JoinGroupRequest:
			if li := gs.lastIssued[client]; li != nil && r.MemberId == "" && !li.void {
				li.c.mu.Lock()
				arrived := li.c.deliveredCorr[li.corr] && !li.c.sawError
				li.c.mu.Unlock()
				if arrived {
					gs.r.violate("C07.stale-identity", "%s joins with an empty member id although the coordinator had issued it %q (answer delivered) and neither fenced it nor saw it leave", client, li.member)
				}
			}
			if fm := gs.mustBeFresh[client]; fm != nil {
				fm.c.mu.Lock()
				arrived := fm.c.deliveredCorr[fm.corr] && !fm.c.sawError
				fm.c.mu.Unlock()
				if r.MemberId != "" && arrived {
					gs.r.violate("C07.no-fresh-identity", "%s was fenced (UNKNOWN_MEMBER_ID / ILLEGAL_GENERATION on join or sync) but re-joins with member id %q", client, r.MemberId)
				}
				delete(gs.mustBeFresh, client)
			}
			check("JoinGroup", r.MemberId, 0, false)
		case *sarama.SyncGroupRequest:
			check("SyncGroup", r.MemberId, r.GenerationId, true)
		case *sarama.HeartbeatRequest:
			check("Heartbeat", r.MemberId, r.GenerationId, true)
		case *sarama.LeaveGroupRequest:
			check("LeaveGroup", r.MemberId, 0, false)
			if li := gs.lastIssued[client]; li != nil {
				li.void = true
			}
			// Close leaves the group only after the running Consume call has returned (its session's final commit
			// included): a LeaveGroup that arrives while Consume is still active has overtaken the session's end
			for _, m := range gs.members {
				if m.cfg == nil || m.cfg.ClientID != client {
					continue
				}
				m.mu.Lock()
				active, crashed := m.consumeActive, m.crashed
				// (a Consume call that has not got as far as Setup holds no session: Close may overtake it)
				if n := len(m.sessions); n == 0 || m.sessions[n-1].setups == 0 || m.sessions[n-1].returnE != 0 || m.sessions[n-1].memberID != r.MemberId {
					active = false
				}
				m.mu.Unlock()
				if active && !crashed {
					gs.r.violate("C07.lifecycle-order", "member %d: LeaveGroup (member %q) reached the coordinator while its Consume call had not returned yet: the group was left before the session had ended and committed", m.idx, r.MemberId)
				}
			}
		case *sarama.OffsetCommitRequest:
			if r.ConsumerGroupGeneration >= 0 {
				check("OffsetCommit", r.ConsumerID, r.ConsumerGroupGeneration, true)
			}
		}
	}
	gm.onIssued = func(client, member string, gen int32) { note(client, member, gen) }
	gm.onFenced = func(client string, c *simConn, corr int32) {
		if li := gs.lastIssued[client]; li != nil {
			li.void = true
		}
		if !gs.cl.discarding {
			gs.mustBeFresh[client] = &fenceMark{c, corr}
		}
	}
	gm.onHeartbeatAns = func(client string, r *sarama.HeartbeatRequest, e sarama.KError, c *simConn, corr int32) {
		switch e {
		case sarama.ErrRebalanceInProgress, sarama.ErrUnknownMemberId, sarama.ErrIllegalGeneration:
			gs.hbFences = append(gs.hbFences, &hbFence{client: client, member: r.MemberId, gen: r.GenerationId, err: e, c: c, corr: corr})
		}
	}
	gm.onVoided = func(client string) {
		if li := gs.lastIssued[client]; li != nil {
			li.void = true
		}
	}
	gm.onIssuedAt = func(client, member string, c *simConn, corr int32) {
		gs.lastIssued[client] = &issuedMark{member: member, c: c, corr: corr}
	}
	gm.onOffsetFetch = func(client, key string, off int64) {
		gs.mu.Lock()
		if gs.fetchAnswered[client] == nil {
			gs.fetchAnswered[client] = map[string]int64{}
		}
		gs.fetchAnswered[client][key] = off
		gs.mu.Unlock()
	}
	gm.onCommit = func(cr *commitRec) {
		gs.mu.Lock()
		md, ok := gs.maxDelivered[cr.key]
		gs.mu.Unlock()
		if cr.offset >= 0 && (!ok && cr.offset > 0 && gs.everDelivered(cr.key) || ok && cr.offset > md+1) {
			gs.r.violate("C07.skipped-record", "commit of %d for %s although the highest offset ever delivered to a handler is %d", cr.offset, cr.key, md)
		}
	}
	gm.onPlan = gs.onPlan
}

func (gs *groupScen) everDelivered(key string) bool { return false }

func (gs *groupScen) onHang(dump string) {
	frames := blockedSaramaFrames(dump)
	k := gs.r.k
	stuck := false
	for _, m := range gs.members {
		m.mu.Lock()
		if m.consumeActive && m.endRequestedUs > 0 && !m.crashed {
			stuck = true
			gs.r.violate("C07.consume-hang", "member %d: Consume did not return within the liveness bound after the application asked the session to end at %d us (now %d); parked: %v", m.idx, m.endRequestedUs, k.nowUs(), frames)
		}
		m.mu.Unlock()
	}
	closeStuck := false
	for _, m := range gs.members {
		m.mu.Lock()
		if m.closeInFlight {
			closeStuck = true
			cls := ""
			if m.crashed {
				cls = "member-cut-off"
			}
			gs.r.violateClass("C12.close-hang", cls, "member %d: ConsumerGroup.Close did not complete within the liveness bound [%s]; parked: %v", m.idx, cls, frames)
		}
		m.mu.Unlock()
	}
	if !stuck && !closeStuck {
		gs.r.violate("C12.close-hang", "group scenario did not finish; parked: %v", frames)
	}
	if !stuck && gs.c.Property != "C12" {
		gs.r.violate(propRule("hang"), "group scenario did not finish; parked: %v", frames)
	}
	gs.judge()
}

// checkHeartbeatEnds: a heartbeat answer that announces a rebalance or fences the member ends the running session of
// that identity - its context is cancelled when the answer arrives, not when the application happens to end it.
// Judged only for answers that reached a connection which stayed healthy for the bound afterwards.
func (gs *groupScen) checkHeartbeatEnds() {
	bound := int64(100000 + 2*gs.c.Net.MaxUs)
	for _, hf := range gs.hbFences {
		hf.c.mu.Lock()
		d, ok := hf.c.deliveredAt[hf.corr]
		healthy := !hf.c.poisoned && (!hf.c.sawError || hf.c.errUs > d+bound)
		hf.c.mu.Unlock()
		if !ok || !healthy {
			continue
		}
		for _, m := range gs.members {
			if m.cfg == nil || m.cfg.ClientID != hf.client || m.crashed {
				continue
			}
			for _, sr := range m.sessions {
				if sr.memberID != hf.member || sr.generation != hf.gen || sr.setups == 0 {
					continue
				}
				gs.r.probe("heartbeat-end-judged")
				t0 := d
				if sr.setupUs > t0 {
					t0 = sr.setupUs
				}
				if sr.ctxDoneUs == 0 || sr.ctxDoneUs > t0+bound {
					gs.r.violate("C07.heartbeat-end", "member %d session %d (member id %q gen %d): the coordinator answered its heartbeat with %v, delivered at %d us on a healthy connection, but the session's context was not cancelled by %d us (cancelled at %d; 0 = never): the session outlives the rebalance/fencing", m.idx, sr.n, sr.memberID, sr.generation, hf.err, d, t0+bound, sr.ctxDoneUs)
				}
			}
		}
	}
}

func (gs *groupScen) judge() {
	r := gs.r
	gs.checkHeartbeatEnds()
	nf := 0
	for _, n := range r.faults {
		nf += n
	}
	for _, m := range gs.members {
		for _, sr := range m.sessions {
			gs.checkFinalCommit(m, sr)
			if sr.setups != 1 {
				r.violate("C07.lifecycle-order", "member %d session %d: Setup called %d times", m.idx, sr.n, sr.setups)
			}
			for key, st := range sr.claimStart {
				if st < sr.setupE {
					r.violate("C07.lifecycle-order", "member %d session %d: ConsumeClaim(%s) started before Setup returned", m.idx, sr.n, key)
				}
				if en, ok := sr.claimEnd[key]; ok && sr.cleanupE != 0 && en > sr.cleanupE {
					r.violate("C07.lifecycle-order", "member %d session %d: Cleanup ran before ConsumeClaim(%s) returned", m.idx, sr.n, key)
				}
			}
			if sr.returnE != 0 && sr.cleanupE != 0 && sr.cleanupE > sr.returnE {
				r.violate("C07.lifecycle-order", "member %d session %d: Consume returned before Cleanup", m.idx, sr.n)
			}
			// every assigned partition gets its claim unless the session was already ending: judged when the
			// session's context stayed alive long after Setup (a claim needs a few round trips to start)
			grace := int64(1000000 + 40*gs.c.Net.MaxUs)
			// (with faults in the run the rule still applies when every fault that fired was an error code
			// answered at once: such a fault can make a claim fail to start - which must end the session - but
			// cannot keep a claim waiting)
			instant := true
			for kind := range r.faults {
				switch kind {
				case "listoffsets-errcode", "fetch-errcode", "commit-errcode", "offsetfetch-errcode", "partial-trailing":
				default:
					instant = false
				}
			}
			if (nf == 0 || instant) && sr.returnE != 0 && !sr.ctxDoneAtSetup && sr.ctxDoneUs-sr.setupUs > grace {
				for t, ps := range sr.claims {
					for _, p := range ps {
						key := fmt.Sprintf("%s/%d", t, p)
						if sr.claimStarts[key] == 0 {
							cls := ""
							for _, t := range m.notConnectedErrs {
								if t >= sr.setupUs && t <= sr.cleanupUs {
									cls = "broker-not-connected-reported"
								}
							}
							r.violateClass("C07.claim-count", cls, "member %d session %d (gen %d): no ConsumeClaim for the assigned partition %s although the session stayed alive for %d us after Setup (no fault in the run could keep a claim waiting) [%s]", m.idx, sr.n, sr.generation, key, sr.ctxDoneUs-sr.setupUs, cls)
						}
					}
				}
			}
		}
	}
	r.res.Nontrivial = nf > 0 || len(gs.members) > 1
}

package main

import (
	"fmt"
	"sort"
	"strings"

	"github.com/Shopify/sarama"
)

// Oracles for C08 (valid assignment) and C13 (balance / stickiness), evaluated on the leader's
// SyncGroup as the model coordinator sees it.

func (gs *groupScen) onPlan(mg *mgroup, rec *genRecord) {
	r := gs.r
	r.probe("plan-checked")
	gen := rec.generation
	// the leader's metadata may lag: a partition count is admissible if the topic had it at some time
	// ... since the leader's current Consume call began (it refreshes its metadata right after that)
	since := int64(0)
	if lm := mg.members[rec.leader]; lm != nil {
		for _, m := range gs.members {
			if m.cfg != nil && m.cfg.ClientID == lm.clientID {
				m.mu.Lock()
				since = m.consumeInvokeUs
				m.mu.Unlock()
				// a response computed earlier (background refresher, another connection) that reached the client
				// after that moment - or has not arrived yet - may have overwritten the fresher view
				since0 := since
				for _, ms := range gs.metaServed[m.idx+1] {
					ms.conn.mu.Lock()
					d, ok := ms.conn.deliveredAt[ms.corr]
					ms.conn.mu.Unlock()
					if (!ok || d >= since0) && ms.serveUs < since {
						since = ms.serveUs
					}
				}
			}
		}
	}
	leaderSubs := map[string]bool{}
	for _, t := range rec.subs[rec.leader] {
		leaderSubs[t] = true
	}
	admissible := func(t string) []int {
		var out []int
		cs, at := gs.countsEver[t], gs.countsAt[t]
		for i, n := range cs {
			end := int64(1) << 62
			if i+1 < len(at) {
				end = at[i+1]
			}
			// topics the leader does not subscribe to itself are refreshed only by its background refresher:
			// its cached count may date from any time
			if end >= since || !leaderSubs[t] {
				out = append(out, n)
			}
		}
		return out
	}
	isMember := map[string]bool{}
	for _, m := range rec.members {
		isMember[m] = true
	}
	subscribes := func(m, t string) bool {
		for _, x := range rec.subs[m] {
			if x == t {
				return true
			}
		}
		return false
	}
	owner := map[string]string{} // "t/p" -> member
	perTopic := map[string]map[int32]string{}
	var members []string
	for m := range rec.assignments {
		members = append(members, m)
	}
	sort.Strings(members)
	for _, m := range members {
		if !isMember[m] {
			r.violate("C08.unknown-member", "generation %d (%s): plan names member %q which is not in the group %v", gen, gs.strategy, m, rec.members)
			continue
		}
		var ts []string
		for t := range rec.assignments[m] {
			ts = append(ts, t)
		}
		sort.Strings(ts)
		for _, t := range ts {
			for _, p := range rec.assignments[m][t] {
				key := fmt.Sprintf("%s/%d", t, p)
				if !subscribes(m, t) {
					r.violate("C08.not-subscribed", "generation %d (%s): %s assigned to %s which does not subscribe to %s (subscriptions %v)", gen, gs.strategy, key, m, t, rec.subs[m])
				}
				n := 0
				for _, x := range admissible(t) {
					if x > n {
						n = x
					}
				}
				if int(p) >= n || p < 0 {
					r.violate("C08.unknown-partition", "generation %d (%s): %s assigned to %s but topic %s has %d partitions", gen, gs.strategy, key, m, t, n)
				}
				if prev, dup := owner[key]; dup {
					r.violate("C08.double-assigned", "generation %d (%s): %s assigned to both %s and %s", gen, gs.strategy, key, prev, m)
				}
				owner[key] = m
				if perTopic[t] == nil {
					perTopic[t] = map[int32]string{}
				}
				perTopic[t][p] = m
			}
		}
	}
	// every partition of every subscribed topic is assigned: the assigned ids of a topic must be exactly
	// 0..n-1 for a partition count n the topic has had (the leader's metadata may lag behind growth)
	subTopics := map[string]bool{}
	for _, m := range rec.members {
		for _, t := range rec.subs[m] {
			subTopics[t] = true
		}
	}
	var sts []string
	for t := range subTopics {
		sts = append(sts, t)
	}
	sort.Strings(sts)
	for _, t := range sts {
		counts := admissible(t)
		if len(counts) == 0 {
			continue // topic does not exist
		}
		got := len(perTopic[t])
		okCount := false
		for _, n := range counts {
			if n == got {
				okCount = true
			}
		}
		complete := true
		for p := 0; p < got; p++ {
			if _, ok := perTopic[t][int32(p)]; !ok {
				complete = false
			}
		}
		if !okCount || !complete {
			var ids []int
			for p := range perTopic[t] {
				ids = append(ids, int(p))
			}
			sort.Ints(ids)
			r.violate("C08.unassigned", "generation %d (%s): topic %s (partition counts it has had: %v) has assigned partitions %v: some partition of a subscribed topic is left unassigned; plan %s; inputs: %s", gen, gs.strategy, t, counts, ids, fmtPlan(rec), fmtPlanInputs(rec))
		}
	}

	// ---- C13 ----
	count := map[string]int{}
	for _, m := range rec.members {
		for _, ps := range rec.assignments[m] {
			count[m] += len(ps)
		}
	}
	identical := true
	for _, m := range rec.members {
		if !sameSet(rec.subs[m], rec.subs[rec.members[0]]) {
			identical = false
		}
	}
	switch gs.strategy {
	case "range", "":
		for _, t := range sts {
			var subs []string
			for _, m := range rec.members {
				if subscribes(m, t) {
					subs = append(subs, m)
				}
			}
			if len(subs) == 0 || len(perTopic[t]) == 0 {
				continue
			}
			min, max := 1<<30, -1
			for _, m := range subs {
				ps := append([]int32(nil), rec.assignments[m][t]...)
				sort.Slice(ps, func(i, j int) bool { return ps[i] < ps[j] })
				for i := 1; i < len(ps); i++ {
					if ps[i] != ps[i-1]+1 {
						r.violate("C13.range-not-contiguous", "generation %d: range strategy gave %s the non-contiguous partitions %v of %s", gen, m, ps, t)
					}
				}
				if len(ps) < min {
					min = len(ps)
				}
				if len(ps) > max {
					max = len(ps)
				}
			}
			if max-min > 1 {
				r.violate("C13.range-unfair", "generation %d: range strategy sizes for topic %s differ by %d (subscribers %v, plan %s)", gen, t, max-min, subs, fmtPlan(rec))
			}
		}
	case "roundrobin":
		if identical {
			min, max := 1<<30, -1
			for _, m := range rec.members {
				if count[m] < min {
					min = count[m]
				}
				if count[m] > max {
					max = count[m]
				}
			}
			if max-min > 1 {
				r.violate("C13.roundrobin-unfair", "generation %d: round-robin totals differ by %d with identical subscriptions: %s", gen, max-min, fmtPlan(rec))
			}
		}
	case "sticky":
		for _, a := range rec.members {
			for _, b := range rec.members {
				if count[a] >= count[b]+2 {
					for t, ps := range rec.assignments[a] {
						if len(ps) > 0 && subscribes(b, t) {
							r.violate("C13.sticky-unbalanced", "generation %d: %s holds %d partitions, %s only %d although it could take one of %s: %s", gen, a, count[a], b, count[b], t, fmtPlan(rec))
						}
					}
				}
			}
		}
		gs.checkSticky(mg, rec, owner, identical)
	}
	gs.lastPlanOwner = owner
}

func sameSet(a, b []string) bool {
	x := append([]string(nil), a...)
	y := append([]string(nil), b...)
	sort.Strings(x)
	sort.Strings(y)
	return strings.Join(x, ",") == strings.Join(y, ",")
}

func fmtPlan(rec *genRecord) string {
	var out []string
	ms := append([]string(nil), rec.members...)
	sort.Strings(ms)
	for _, m := range ms {
		var ts []string
		for t := range rec.assignments[m] {
			ts = append(ts, t)
		}
		sort.Strings(ts)
		var parts []string
		for _, t := range ts {
			ps := append([]int32(nil), rec.assignments[m][t]...)
			sort.Slice(ps, func(i, j int) bool { return ps[i] < ps[j] })
			parts = append(parts, fmt.Sprintf("%s%v", t, ps))
		}
		out = append(out, m+"="+strings.Join(parts, ""))
	}
	return strings.Join(out, " ")
}

// checkSticky compares the plan with the previous generation's plan when every current member that
// was in the previous generation had actually received that generation's assignment.
func (gs *groupScen) checkSticky(mg *mgroup, rec *genRecord, owner map[string]string, identical bool) {
	r := gs.r
	if len(mg.history) < 2 {
		return
	}
	prev := mg.history[len(mg.history)-2]
	if !prev.synced || prev.generation != rec.generation-1 || prev.assignments == nil {
		return
	}
	prevOwner := map[string]string{}
	for m, ts := range prev.assignments {
		for t, ps := range ts {
			for _, p := range ps {
				prevOwner[fmt.Sprintf("%s/%d", t, p)] = m
			}
		}
	}
	inPrev := map[string]bool{}
	for _, m := range prev.members {
		inPrev[m] = true
	}
	inCur := map[string]bool{}
	for _, m := range rec.members {
		inCur[m] = true
		if inPrev[m] && rec.receivedPrev[m] != prev.generation {
			return // premise fails: this member carries older (or no) user data
		}
	}
	sameSubs := true
	for _, m := range rec.members {
		if inPrev[m] && !sameSet(rec.subs[m], prev.subs[m]) {
			sameSubs = false
		}
	}
	// "partitions unchanged" as the leader saw them: both plans cover exactly the same partitions
	samePartitions := len(prevOwner) == len(owner)
	for key := range owner {
		if _, ok := prevOwner[key]; !ok {
			samePartitions = false
		}
	}
	// pairwise swaps within a topic are ruled out whatever else changed (partitions added or gone, subscriptions
	// changed): both partitions still exist and both members are still there and, having taken a partition of the
	// topic, subscribed to it
	{
		swapped := map[string][2]string{}
		for key, po := range prevOwner {
			if co, ok := owner[key]; ok && co != po && inCur[po] {
				swapped[key] = [2]string{po, co}
			}
		}
		var keys []string
		for k := range swapped {
			keys = append(keys, k)
		}
		sort.Strings(keys)
		for i, a := range keys {
			for _, b := range keys[i+1:] {
				ta, tb := a[:strings.LastIndex(a, "/")], b[:strings.LastIndex(b, "/")]
				if ta == tb && swapped[a][0] == swapped[b][1] && swapped[a][1] == swapped[b][0] {
					r.violate("C13.sticky-swap", "generation %d: %s and %s swapped owners (%s <-> %s) within topic %s (before %s, now %s)", rec.generation, a, b, swapped[a][0], swapped[a][1], ta, fmtPlan(prev), fmtPlan(rec))
				}
			}
		}
	}
	if !samePartitions || !sameSubs {
		return
	}
	r.probe("sticky-premise-met")
	var joined, left []string
	for _, m := range rec.members {
		if !inPrev[m] {
			joined = append(joined, m)
		}
	}
	for _, m := range prev.members {
		if !inCur[m] {
			left = append(left, m)
		}
	}
	moved := map[string][2]string{}
	for key, po := range prevOwner {
		if co, ok := owner[key]; ok && co != po && inCur[po] {
			moved[key] = [2]string{po, co}
		}
	}
	switch {
	case len(joined) == 0 && len(left) == 0:
		if len(moved) > 0 {
			r.violate("C13.sticky-not-fixpoint", "generation %d: members, subscriptions and partitions are unchanged and everybody had received generation %d, yet partitions moved: %v (before %s, now %s)", rec.generation, prev.generation, moved, fmtPlan(prev), fmtPlan(rec))
		}
	case identical && len(left) == 1 && len(joined) == 0:
		if len(moved) > 0 {
			r.violate("C13.sticky-moved-on-leave", "generation %d: %s left (identical subscriptions) but survivors lost partitions: %v (before %s, now %s)", rec.generation, left[0], moved, fmtPlan(prev), fmtPlan(rec))
		}
	case identical && len(joined) == 1 && len(left) == 0:
		for key, mv := range moved {
			if inPrev[mv[1]] {
				r.violate("C13.sticky-moved-on-join", "generation %d: %s joined (identical subscriptions) but %s moved between old members %s -> %s (before %s, now %s)", rec.generation, joined[0], key, mv[0], mv[1], fmtPlan(prev), fmtPlan(rec))
			}
		}
	}
}


// fmtPlanInputs renders what the members sent with JoinGroup for a generation: subscription and, for the sticky
// strategy, the previous assignment and generation carried in the user data.
func fmtPlanInputs(rec *genRecord) string {
	var out []string
	for _, id := range rec.members {
		line := fmt.Sprintf("%s subscribes %v", id, rec.subs[id])
		if topics, gen, ok := sarama.VerifStickyUserData(rec.userData[id]); ok {
			var ts []string
			for t := range topics {
				ts = append(ts, t)
			}
			sort.Strings(ts)
			line += fmt.Sprintf(" previous(gen %d):", gen)
			for _, t := range ts {
				line += fmt.Sprintf(" %s%v", t, topics[t])
			}
		}
		out = append(out, line)
	}
	return strings.Join(out, "; ")
}

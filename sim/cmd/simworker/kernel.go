package main

import (
	"container/heap"
	"fmt"
	"sync"
	"time"

	"simverif/cf"
)

// Fake-clock epoch of a synctest bubble: 2000-01-01T00:00:00Z.
var epoch = time.Date(2000, 1, 1, 0, 0, 0, 0, time.UTC)

type event struct {
	at  time.Time
	seq uint64
	fn  func()
}
type evHeap []*event

func (h evHeap) Len() int { return len(h) }
func (h evHeap) Less(i, j int) bool {
	if !h[i].at.Equal(h[j].at) {
		return h[i].at.Before(h[j].at)
	}
	return h[i].seq < h[j].seq
}
func (h evHeap) Swap(i, j int) { h[i], h[j] = h[j], h[i] }
func (h *evHeap) Push(x any)   { *h = append(*h, x.(*event)) }
func (h *evHeap) Pop() any     { o := *h; n := len(o); x := o[n-1]; *h = o[:n-1]; return x }

// kernel: discrete-event loop owning the model cluster. Model state is only touched from
// kernel events (single goroutine) or under k.mu.
type kernel struct {
	mu     sync.Mutex
	h      evHeap
	seq    uint64
	wake   chan struct{}
	stop   bool
	netRng *cf.Rng
	trace  []string
	nEv    int
	maxEv  int
	E      uint64 // global observation stamp
	lastUs int64
}

func newKernel(c *cf.Case) *kernel {
	k := &kernel{wake: make(chan struct{}, 1), netRng: &cf.Rng{S: c.Net.Seed}, maxEv: 200000}
	go k.loop()
	return k
}

func (k *kernel) nowUs() int64 {
	if outsideBubble {
		return k.lastUs
	}
	us := int64(time.Since(epoch) / time.Microsecond)
	k.lastUs = us
	return us
}

var outsideBubble bool

// stamp returns a fresh global sequence number for invoke/return/observation ordering.
func (k *kernel) stamp() uint64 {
	k.mu.Lock()
	k.E++
	e := k.E
	k.mu.Unlock()
	return e
}

func (k *kernel) logf(f string, a ...any) {
	s := fmt.Sprintf("%d ", k.nowUs()) + fmt.Sprintf(f, a...)
	k.mu.Lock()
	k.trace = append(k.trace, s)
	k.mu.Unlock()
}

func (k *kernel) after(d time.Duration, fn func()) {
	k.mu.Lock()
	k.seq++
	heap.Push(&k.h, &event{time.Now().Add(d), k.seq, fn})
	k.mu.Unlock()
	select {
	case k.wake <- struct{}{}:
	default:
	}
}

func (k *kernel) halt() {
	k.mu.Lock()
	k.stop = true
	k.mu.Unlock()
	select {
	case k.wake <- struct{}{}:
	default:
	}
}

func (k *kernel) loop() {
	for {
		k.mu.Lock()
		if k.stop {
			k.mu.Unlock()
			return
		}
		if len(k.h) == 0 {
			k.mu.Unlock()
			<-k.wake
			continue
		}
		next := k.h[0]
		d := time.Until(next.at)
		if d > 0 {
			k.mu.Unlock()
			t := time.NewTimer(d)
			select {
			case <-t.C:
			case <-k.wake:
				t.Stop()
			}
			continue
		}
		heap.Pop(&k.h)
		k.nEv++
		n := k.nEv
		k.mu.Unlock()
		if n > k.maxEv {
			R.finish("inconclusive", "event cap reached")
		}
		next.fn()
		if ca := R.c.CloseAt; ca != nil && n == ca.K {
			d := time.Duration(0)
			if ca.Half {
				// half way to the next model event: lands inside back-offs, long polls and time-outs
				k.mu.Lock()
				if len(k.h) > 0 {
					d = time.Until(k.h[0].at) / 2
				}
				k.mu.Unlock()
			}
			if d <= 0 {
				R.triggerClose()
			} else {
				time.AfterFunc(d, R.triggerClose)
			}
		}
	}
}

// latency draws one network delay from the run's net model.
func (k *kernel) latency() time.Duration {
	n := R.c.Net
	k.mu.Lock()
	defer k.mu.Unlock()
	switch n.Model {
	case "zero":
		return 0
	case "const":
		return time.Duration(n.MinUs) * time.Microsecond
	case "heavy":
		// mostly near min, occasionally 10x max
		v := n.MinUs + k.netRng.Intn(n.MaxUs-n.MinUs+1)
		if k.netRng.Intn(10) == 0 {
			v *= 10
		}
		return time.Duration(v) * time.Microsecond
	default:
		return time.Duration(n.MinUs+k.netRng.Intn(n.MaxUs-n.MinUs+1)) * time.Microsecond
	}
}

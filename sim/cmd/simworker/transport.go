package main

import (
	"errors"
	"fmt"
	"io"
	"net"
	"os"
	"sync"
	"syscall"
	"time"
)

type addr string

func (a addr) Network() string { return "tcp" }
func (a addr) String() string  { return string(a) }

// simConn is the client end of one in-memory TCP connection to a model broker.
// TCP semantics: bytes are never reordered/duplicated/dropped within a connection; loss shows up
// as a connection that dies (reset/EOF) or goes silent.
type simConn struct {
	id     int
	k      *kernel
	cl     *cluster
	br     *mbroker
	mu     sync.Mutex
	in     []byte // bytes readable by the client
	out    []byte // partial frame written by the client
	closed bool   // client closed
	reset  bool   // server reset / closed
	eof    bool
	notify chan struct{}
	rdl    time.Time
	wdl    time.Time
	stall  bool // broker stopped reading: writes block until the write deadline
	closing bool // server closed its end; pending data still to be delivered

	// server side (kernel only)
	queue      [][]byte
	busy       bool
	lastArrive time.Time
	lastDeliv  time.Time
	written    int // complete request frames written by the client
	answered   int // responses fully delivered into the read buffer
	failed     int // written requests whose call already returned an error
	dialUs     int64
	owner      int
	sawError   bool // a Read/Write already returned an error to the client
	errUs      int64 // ... first at this time (fake us)
	deliveredCorr map[int32]bool // correlation ids of responses put into the client's read buffer
	deliveredAt   map[int32]int64 // ... and when (fake us)
	clientCloseUs int64 // when the client closed the connection (0: it has not)
	serverCloseUs int64 // when the server side closed or reset it (0: it has not)
	groupAPI      bool  // a group request (join/sync/heartbeat/leave/offset commit/fetch) arrived on it
	poisoned   bool // the server injected a garbage response on this connection
	expectResp int // requests written that expect a response and are unanswered (C14)
	noResp     map[int]bool
}

func (c *simConn) markErr() {
	c.mu.Lock()
	if !c.sawError {
		c.errUs = c.k.nowUs()
	}
	c.sawError = true
	c.mu.Unlock()
	lastTransportErrUs = c.k.nowUs()
}

// lastTransportErrUs: last time any client Read/Write/Dial returned an error.
var lastTransportErrUs int64 = -1

func (c *simConn) signal() {
	select {
	case c.notify <- struct{}{}:
	default:
	}
}

func (c *simConn) Read(p []byte) (int, error) {
	for {
		c.mu.Lock()
		if len(c.in) > 0 {
			n := copy(p, c.in)
			c.in = c.in[n:]
			c.mu.Unlock()
			return n, nil
		}
		if c.closed {
			c.mu.Unlock()
			return 0, errors.New("use of closed network connection")
		}
		if c.reset {
			c.mu.Unlock()
			c.markErr()
			if c.eof {
				return 0, io.EOF
			}
			return 0, &net.OpError{Op: "read", Net: "tcp", Err: syscall.ECONNRESET}
		}
		dl := c.rdl
		c.mu.Unlock()
		if dl.IsZero() {
			<-c.notify
			continue
		}
		d := time.Until(dl)
		if d <= 0 {
			c.markErr()
			R.fired("read-timeout") // the client gives the connection up: a connection-level failure from its side
			return 0, &net.OpError{Op: "read", Net: "tcp", Err: os.ErrDeadlineExceeded}
		}
		t := time.NewTimer(d)
		select {
		case <-c.notify:
			t.Stop()
		case <-t.C:
		}
	}
}

func (c *simConn) Write(p []byte) (int, error) {
	for {
		c.mu.Lock()
		if c.closed {
			c.mu.Unlock()
			return 0, errors.New("use of closed network connection")
		}
		if c.reset {
			c.mu.Unlock()
			c.markErr()
			return 0, &net.OpError{Op: "write", Net: "tcp", Err: syscall.EPIPE}
		}
		if !c.stall {
			break
		}
		dl := c.wdl
		c.mu.Unlock()
		if dl.IsZero() {
			<-c.notify
			continue
		}
		d := time.Until(dl)
		if d <= 0 {
			c.markErr()
			return 0, &net.OpError{Op: "write", Net: "tcp", Err: os.ErrDeadlineExceeded}
		}
		t := time.NewTimer(d)
		select {
		case <-c.notify:
			t.Stop()
		case <-t.C:
		}
	}
	c.out = append(c.out, p...)
	var frames [][]byte
	for len(c.out) >= 4 {
		n := int(uint32(c.out[0])<<24 | uint32(c.out[1])<<16 | uint32(c.out[2])<<8 | uint32(c.out[3]))
		if n < 0 || n > 1<<30 {
			break
		}
		if len(c.out) < 4+n {
			break
		}
		frames = append(frames, append([]byte(nil), c.out[:4+n]...))
		c.out = c.out[4+n:]
	}
	c.mu.Unlock()
	for _, f := range frames {
		c.cl.onClientFrame(c, f)
	}
	return len(p), nil
}

// deliver appends server bytes to the client's read buffer.
func (c *simConn) deliver(b []byte) {
	c.mu.Lock()
	c.in = append(c.in, b...)
	c.mu.Unlock()
	c.signal()
}

// serverClose: the broker side closes/reset the connection.
func (c *simConn) serverClose(eof bool) {
	c.mu.Lock()
	if !c.reset {
		c.serverCloseUs = c.k.nowUs()
	}
	c.reset = true
	c.eof = eof
	c.mu.Unlock()
	c.signal()
}

// serverCloseOrdered: orderly close (FIN): everything the server sent before is delivered first.
func (c *simConn) serverCloseOrdered(k *kernel) {
	at := time.Now().Add(k.latency())
	if at.Before(c.lastDeliv) {
		at = c.lastDeliv
	}
	c.lastDeliv = at
	c.closing = true
	k.after(time.Until(at), func() { c.serverClose(true) })
}

// serverSilence: the peer vanished without a word (crash of the client host, blackhole).
func (c *simConn) serverSilence() {}

func (c *simConn) isDead() bool {
	c.mu.Lock()
	defer c.mu.Unlock()
	return c.closed || c.reset
}

func (c *simConn) Close() error {
	c.mu.Lock()
	was := c.closed
	c.closed = true
	c.mu.Unlock()
	c.signal()
	if was {
		return errors.New("close of closed connection")
	}
	c.mu.Lock()
	c.clientCloseUs = c.k.nowUs()
	c.mu.Unlock()
	c.k.logf("conn c%d closed by client", c.id)
	return nil
}
func (c *simConn) LocalAddr() net.Addr  { return addr("client:0") }
func (c *simConn) RemoteAddr() net.Addr { return addr(c.br.addr) }
func (c *simConn) SetDeadline(t time.Time) error {
	c.mu.Lock()
	c.rdl, c.wdl = t, t
	c.mu.Unlock()
	return nil
}
func (c *simConn) SetReadDeadline(t time.Time) error {
	c.mu.Lock()
	c.rdl = t
	c.mu.Unlock()
	return nil
}
func (c *simConn) SetWriteDeadline(t time.Time) error {
	c.mu.Lock()
	c.wdl = t
	c.mu.Unlock()
	return nil
}

// dialer is the Net.Proxy.Dialer seam.
type dialer struct {
	cl      *cluster
	owner   int  // member index (0 = untagged)
	crashed bool // the owning process is gone: nothing gets through any more
	conns   []*simConn
}

func (d *dialer) Dial(network, a string) (net.Conn, error) {
	cl := d.cl
	if d.crashed {
		// the owning host is cut off for good: every dial times out
		to := time.Duration(R.c.Config.DialTimeoutMs) * time.Millisecond
		if to == 0 {
			to = 30 * time.Second
		}
		time.Sleep(to)
		return nil, &net.OpError{Op: "dial", Net: "tcp", Err: os.ErrDeadlineExceeded}
	}
	br := cl.brokerByAddr(a)
	lat := cl.k.latency()
	if br == nil {
		time.Sleep(lat)
		cl.k.logf("dial %s: no such host", a)
		lastTransportErrUs = cl.k.nowUs()
		cl.noteDialFail(a)
		if cl.onDialFail != nil {
			cl.onDialFail()
		}
		return nil, &net.OpError{Op: "dial", Net: "tcp", Err: fmt.Errorf("lookup %s: no such host", a)}
	}
	cl.mu.Lock()
	up, hole := br.up, br.blackhole
	cl.mu.Unlock()
	if hole {
		to := time.Duration(R.c.Config.DialTimeoutMs) * time.Millisecond
		if to == 0 {
			to = 30 * time.Second
		}
		R.fired("dial-timeout")
		time.Sleep(to)
		cl.k.logf("dial %s: timeout", a)
		lastTransportErrUs = cl.k.nowUs()
		cl.noteDialFail(a)
		if cl.onDialFail != nil {
			cl.onDialFail()
		}
		return nil, &net.OpError{Op: "dial", Net: "tcp", Err: os.ErrDeadlineExceeded}
	}
	time.Sleep(lat)
	if !up {
		R.fired("refuse")
		cl.k.logf("dial %s: refused", a)
		lastTransportErrUs = cl.k.nowUs()
		cl.noteDialFail(a)
		if cl.onDialFail != nil {
			cl.onDialFail()
		}
		return nil, &net.OpError{Op: "dial", Net: "tcp", Err: syscall.ECONNREFUSED}
	}
	cl.mu.Lock()
	cl.nConn++
	c := &simConn{id: cl.nConn, k: cl.k, cl: cl, br: br, notify: make(chan struct{}, 1), noResp: map[int]bool{}, dialUs: cl.k.nowUs()}
	br.conns = append(br.conns, c)
	c.owner = d.owner
	d.conns = append(d.conns, c)
	cl.mu.Unlock()
	if os.Getenv("SIM_ADDR") != "" {
		cl.k.logf("dial %s ok c%d addr=%p", a, c.id, c)
	} else {
		cl.k.logf("dial %s ok c%d", a, c.id)
	}
	return c, nil
}

package main

import (
	"fmt"
	"time"

	"github.com/Shopify/sarama"

	"simverif/cf"
)

func ms(n int) time.Duration { return time.Duration(n) * time.Millisecond }

func runScenario(r *run) {
	switch r.c.Scenario {
	case "producer":
		scenProducer(r)
	default:
		if f := scenarios[r.c.Scenario]; f != nil {
			f(r)
			return
		}
		fmt.Println("unknown scenario", r.c.Scenario)
		r.finish("infra", "unknown scenario "+r.c.Scenario)
	}
}

var scenarios = map[string]func(*run){}

// baseConfig builds the sarama configuration shared by all scenarios.
func baseConfig(c *cf.Case, cl *cluster) *sarama.Config {
	cfg := sarama.NewConfig()
	v, err := sarama.ParseKafkaVersion(c.Config.Version)
	if err != nil {
		panic(err)
	}
	cfg.Version = v
	cfg.ClientID = "sim"
	cfg.Net.Proxy.Enable = true
	cfg.Net.Proxy.Dialer = &dialer{cl: cl}
	cfg.ChannelBufferSize = c.Config.ChanBuf
	if c.Config.MaxOpenRequests > 0 {
		cfg.Net.MaxOpenRequests = c.Config.MaxOpenRequests
	}
	if c.Config.ReadTimeoutMs > 0 {
		cfg.Net.ReadTimeout = ms(c.Config.ReadTimeoutMs)
		cfg.Net.WriteTimeout = ms(c.Config.ReadTimeoutMs)
	}
	if c.Config.DialTimeoutMs > 0 {
		cfg.Net.DialTimeout = ms(c.Config.DialTimeoutMs)
	}
	cfg.Metadata.Retry.Max = c.Config.MetaRetryMax
	cfg.Metadata.Retry.Backoff = ms(c.Config.MetaBackoffMs)
	cfg.Metadata.RefreshFrequency = ms(c.Config.MetaRefreshMs)
	cfg.Metadata.Full = c.Config.MetaFull
	if c.Config.MaxRequestSize > 0 {
		sarama.MaxRequestSize = int32(c.Config.MaxRequestSize)
	}
	return cfg
}

// watchdog declares a hang when the fake-time budget of the case is exhausted.
func watchdog(r *run, onHang func(dump string)) {
	lim := r.c.MaxSimMs
	if lim <= 0 {
		lim = 600000
	}
	r.stopWatch = make(chan struct{})
	go func() {
		t := time.NewTimer(time.Duration(lim) * time.Millisecond)
		select {
		case <-t.C:
		case <-r.stopWatch:
			t.Stop()
			return
		}
		dump := goroutineDump()
		r.res.Dump = trimDump(dump)
		onHang(dump)
		if r.hangBenign && len(r.viol) == 0 {
			r.res.Dump = ""
			r.finish("ok", "fake-time budget exhausted with no obligation pending")
		}
		r.finish("violation", "fake-time budget exhausted")
	}()
}

func codecOf(name string) sarama.CompressionCodec {
	switch name {
	case "gzip":
		return sarama.CompressionGZIP
	case "snappy":
		return sarama.CompressionSnappy
	case "lz4":
		return sarama.CompressionLZ4
	case "zstd":
		return sarama.CompressionZSTD
	}
	return sarama.CompressionNone
}

func pad(prefix string, n int) []byte {
	if n < 0 {
		return nil
	}
	b := make([]byte, 0, n)
	b = append(b, prefix...)
	for i := len(b); i < n; i++ {
		b = append(b, byte('a'+i%26))
	}
	return b
}

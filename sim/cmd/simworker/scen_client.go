package main

import (
	"strconv"
	"encoding/json"
	"fmt"
	"sort"
	"strings"
	"sync"
	"time"

	"github.com/Shopify/sarama"
	"github.com/anishathalye/porcupine"

	"simverif/cf"
)

func init() { scenarios["client"] = scenClient }

// ---- reference view (what a client holds after applying metadata responses) ----

type vPart struct {
	Leader   int32   `json:"l"`
	Replicas []int32 `json:"r"`
	Isr      []int32 `json:"i"`
	Offline  []int32 `json:"o"`
	Err      int16   `json:"e"`
}
type vTopic struct {
	Parts map[int32]*vPart `json:"p"`
}
type vState struct {
	B map[int32]string   `json:"b"`
	T map[string]*vTopic `json:"t"`
}

func (s *vState) clone() *vState {
	b, _ := json.Marshal(s)
	var d vState
	_ = json.Unmarshal(b, &d)
	if d.B == nil {
		d.B = map[int32]string{}
	}
	if d.T == nil {
		d.T = map[string]*vTopic{}
	}
	return &d
}
func (s *vState) key() string {
	b, _ := json.Marshal(s) // encoding/json sorts map keys: canonical
	return string(b)
}

// vWrite is one served metadata response.
type vWrite struct {
	Idx     int
	Full    bool
	Brokers map[int32]string
	Topics  []vwTopic
}
type vwTopic struct {
	Name  string
	Err   int16
	Parts map[int32]*vPart
}

func applyWrite(s *vState, w *vWrite) *vState {
	n := s.clone()
	n.B = map[int32]string{}
	for id, a := range w.Brokers {
		n.B[id] = a
	}
	if w.Full {
		n.T = map[string]*vTopic{}
	}
	for _, t := range w.Topics {
		delete(n.T, t.Name)
		switch sarama.KError(t.Err) {
		case sarama.ErrNoError, sarama.ErrLeaderNotAvailable:
			vt := &vTopic{Parts: map[int32]*vPart{}}
			for id, p := range t.Parts {
				vt.Parts[id] = p
			}
			n.T[t.Name] = vt
		}
	}
	return n
}

type cRead struct {
	Kind      string
	Topic     string
	Partition int32
}

// render computes what a read must return in state s ("" error string means success).
func render(s *vState, rd cRead) string {
	ints := func(x []int32) string {
		return strings.Trim(strings.Join(strings.Fields(fmt.Sprint(x)), ","), "[]")
	}
	switch rd.Kind {
	case "brokers":
		var l []string
		for id, a := range s.B {
			l = append(l, fmt.Sprintf("%d@%s", id, a))
		}
		sort.Strings(l)
		return "ok:" + strings.Join(l, " ")
	}
	t := s.T[rd.Topic]
	if t == nil {
		return "err:unknown"
	}
	switch rd.Kind {
	case "partitions", "writable":
		var ids []int32
		for id, p := range t.Parts {
			if rd.Kind == "writable" && sarama.KError(p.Err) == sarama.ErrLeaderNotAvailable {
				continue
			}
			ids = append(ids, id)
		}
		sort.Slice(ids, func(i, j int) bool { return ids[i] < ids[j] })
		if len(ids) == 0 && rd.Kind == "partitions" {
			return "err:unknown"
		}
		return "ok:" + ints(ids)
	}
	p := t.Parts[rd.Partition]
	if p == nil {
		return "err:unknown"
	}
	switch rd.Kind {
	case "leader":
		if sarama.KError(p.Err) == sarama.ErrLeaderNotAvailable || p.Leader < 0 {
			return "err:leader-not-available"
		}
		if _, ok := s.B[p.Leader]; !ok {
			return "err:leader-not-available"
		}
		return fmt.Sprintf("ok:%d@%s", p.Leader, s.B[p.Leader])
	case "replicas":
		return "ok:" + ints(p.Replicas)
	case "isr":
		return "ok:" + ints(p.Isr)
	case "offline":
		return "ok:" + ints(p.Offline)
	}
	return "?"
}

// ---- history ----

type cOp struct {
	client   int
	isWrite  bool
	w        *vWrite
	rd       cRead
	out      string
	call     uint64
	ret      uint64 // 0 = pending for ever
	inFlight []int  // app calls in progress when the response was served
	tolerant bool   // read returned a transport error / happened under unreachability
	refresh  bool
	refreshTopics []string
	refreshErr error
	actor    int
	conn     *simConn
	corr     int32
	invokeUs int64
	overlapped bool // another app call was in progress at some time during this call
	healthy    []string // seeds that were healthy when the call began
}

type clientScen struct {
	r       *run
	c       *cf.Case
	cl      *cluster
	mu      sync.Mutex
	ops     []*cOp
	nWrites int
	active  map[int]*cOp // app calls in progress (id -> op)
	nextID  int
	unreach bool // some broker was unreachable / a metadata request was faulted so far
	unreachAt uint64
	bg      bool
	seeds   []string
	createdAt uint64
	lastUnreachUs int64
	closeInvoked bool
	closeDone    bool
	burst    chan struct{}          // closed (and replaced) whenever a metadata response is delivered to the client
	metaResp map[*simConn]map[int32]bool
}

func scenClient(r *run) {
	c := r.c
	k := r.k
	cl := newCluster(k, c)
	cs := &clientScen{r: r, c: c, cl: cl, active: map[int]*cOp{}, bg: c.Config.MetaRefreshMs > 0}
	cfg := baseConfig(c, cl)
	if err := cfg.Validate(); err != nil {
		r.finish("infra", "generated config invalid: "+err.Error())
	}
	cl.onMetadata = cs.onMetadata
	cs.burst = make(chan struct{})
	cs.metaResp = map[*simConn]map[int32]bool{}
	cl.onDeliver = func(conn *simConn, corr int32) {
		cs.mu.Lock()
		hit := cs.metaResp[conn][corr]
		var ch chan struct{}
		if hit {
			delete(cs.metaResp[conn], corr)
			ch = cs.burst
			cs.burst = make(chan struct{})
		}
		cs.mu.Unlock()
		if ch != nil {
			close(ch) // readers waiting for "a refresh is being applied right now" all become runnable at this instant
		}
	}
	cl.onDialFail = cs.markUnreach
	cl.onFault = func(kind string) {
		switch kind {
		case "leader-move", "controller-move":
		default:
			cs.markUnreach()
		}
	}
	cl.onRequest = func(conn *simConn, h reqHeader, body interface{}, fault *cf.Fault) {
		if fault != nil {
			cs.markUnreach()
		}
	}
	watchdog(r, cs.onHang)
	r.res.Ops = len(c.Workload)
	r.post = cs.post

	// seeds: the case may name a subset of brokers plus dead addresses
	seeds := cl.seedAddrs()
	for i := range c.Workload {
		if c.Workload[i].Op == "seeds" {
			seeds = c.Workload[i].Args
		}
	}
	for _, f := range c.Faults {
		if f.Do == "broker-down" {
			// unreachability is part of the plan: tolerate set-aside brokers from the first fault on
		}
	}
	cs.seeds = seeds
	client, err := sarama.NewClient(seeds, cfg)
	if err != nil {
		k.logf("NewClient failed: %v", err)
		cs.checkCreationFailure(seeds, err)
		close(r.stopWatch)
		k.halt()
		return
	}
	cs.createdAt = k.stamp()
	byActor := map[int][]*cf.Op{}
	var actors []int
	for i := range c.Workload {
		op := &c.Workload[i]
		if op.Op != "read" && op.Op != "refresh" && op.Op != "burst" {
			continue
		}
		if _, ok := byActor[op.Actor]; !ok {
			actors = append(actors, op.Actor)
		}
		byActor[op.Actor] = append(byActor[op.Actor], op)
	}
	var wg sync.WaitGroup
	for _, a := range actors {
		ops := byActor[a]
		wg.Add(1)
		go func() {
			defer wg.Done()
			for _, op := range ops {
				if op.ThinkUs > 0 {
					cs.r.nap(time.Duration(op.ThinkUs) * time.Microsecond)
				}
				if cs.r.closing() {
					return
				}
				cs.doOp(client, op)
			}
		}()
	}
	// C12: at the close point the client is closed at once, whatever its callers are in the middle of (their
	// calls must then return - with a result or an error - and nothing may panic)
	closedEarly := make(chan struct{})
	if c.CloseAt != nil {
		go func() {
			select {
			case <-cs.r.closeNow:
			case <-closedEarly:
				return
			}
			cs.mu.Lock()
			already := cs.closeInvoked
			cs.closeInvoked = true
			cs.mu.Unlock()
			if already {
				return
			}
			k.logf("client.Close() (close point, calls may be in progress)")
			if err := client.Close(); err != nil {
				k.logf("client.Close: %v", err)
			}
			cs.mu.Lock()
			cs.closeDone = true
			cs.mu.Unlock()
			close(closedEarly)
		}()
	}
	wg.Wait()
	cs.mu.Lock()
	early := cs.closeInvoked
	cs.closeInvoked = true
	cs.mu.Unlock()
	if early {
		<-closedEarly
	} else {
		if c.CloseAt != nil {
			close(closedEarly)
		}
		k.logf("client.Close()")
		if err := client.Close(); err != nil {
			k.logf("client.Close: %v", err)
		}
		cs.mu.Lock()
		cs.closeDone = true
		cs.mu.Unlock()
	}
	if err := client.Close(); err != sarama.ErrClosedClient {
		r.violate("C12.double-close", "second Client.Close returned %v, expected ErrClosedClient", err)
	}
	time.Sleep(cfg.Net.DialTimeout + cfg.Net.ReadTimeout + time.Second)
	nf := 0
	for _, n := range r.faults {
		nf += n
	}
	r.res.Nontrivial = nf > 0 || len(actors) > 1
	k.nowUs()
	close(r.stopWatch)
	k.halt()
}

func (cs *clientScen) markUnreach() {
	cs.mu.Lock()
	if !cs.unreach {
		cs.unreach = true
		cs.unreachAt = cs.r.k.E
	}
	cs.lastUnreachUs = cs.r.k.nowUs()
	cs.mu.Unlock()
}

// healthySeedsNow: seeds whose broker is up and to which the client holds no connection that a
// fault already killed (a stale connection legitimately costs one failed attempt).
func (cs *clientScen) healthySeedsNow() []string {
	cs.cl.mu.Lock()
	defer cs.cl.mu.Unlock()
	var out []string
	for _, a := range cs.seeds {
		for _, b := range cs.cl.brokers {
			if b.addr != a || !b.up || b.blackhole {
				continue
			}
			stale := false
			for _, c := range b.conns {
				c.mu.Lock()
				if !c.closed && c.dialUs <= b.dirtyUs {
					stale = true
				}
				c.mu.Unlock()
			}
			if !stale {
				out = append(out, a)
			}
		}
	}
	return out
}

// cleanSeedSince: one of the seeds that were healthy at t and have stayed up and fault-free since.
func (cs *clientScen) cleanSeedSince(t int64, healthy []string) string {
	cs.cl.mu.Lock()
	defer cs.cl.mu.Unlock()
	for _, a := range healthy {
		for _, b := range cs.cl.brokers {
			if b.addr == a && b.up && !b.blackhole && b.dirtyUs < t {
				return a
			}
		}
	}
	return ""
}

// everyCleanSeedFailedADialBefore: each seed that answered throughout the call had failed this client at some
// earlier time (a refused or timed-out dial, or a connection that broke), i.e. the client had had a reason to set it
// aside.
func (cs *clientScen) everyCleanSeedFailedADialBefore(t int64, healthy []string) bool {
	cs.cl.mu.Lock()
	defer cs.cl.mu.Unlock()
	n := 0
	for _, a := range healthy {
		for _, b := range cs.cl.brokers {
			if b.addr == a && b.up && !b.blackhole && b.dirtyUs < t {
				n++
				failedBefore := false
				if ft, ok := cs.cl.dialFailUs[a]; ok && ft < t {
					failedBefore = true
				}
				for _, c := range b.conns {
					// a connection to it that broke (reset, closed by the server, or given up by the client) earlier
					c.mu.Lock()
					if c.dialUs < t && (c.sawError || (c.serverCloseUs > 0 && c.serverCloseUs < t) || (c.clientCloseUs > 0 && c.clientCloseUs < t)) {
						failedBefore = true
					}
					c.mu.Unlock()
				}
				if !failedBefore {
					return false
				}
			}
		}
	}
	return n > 0
}

// anyDown reports whether some broker is currently unreachable.
func (cs *clientScen) anyDown() bool {
	cs.cl.mu.Lock()
	defer cs.cl.mu.Unlock()
	for _, b := range cs.cl.brokers {
		if !b.up {
			return true
		}
	}
	return false
}

func (cs *clientScen) checkCreationFailure(seeds []string, err error) {
	// creation must succeed whenever at least one seed answers
	if _, isK := err.(sarama.KError); isK && err != sarama.ErrOutOfBrokers {
		return // a verdict of the cluster about a topic, not a reachability failure
	}
	if seed := cs.cleanSeedSince(0, cs.seeds); seed != "" {
		cls := "sequential"
		if cs.bg {
			cls = "concurrent-calls"
		}
		cs.r.violateClass("C15.refresh-failed-despite-live-broker", "sequential", "NewClient(%v) failed with %v although seed %s was reachable and fault-free the whole time", seeds, err, seed)
		_ = cls
	}
}

func (cs *clientScen) onMetadata(br *mbroker, conn *simConn, corr int32, req *sarama.MetadataRequest, m *sarama.MetadataResponse) {
	w := &vWrite{Full: len(req.Topics) == 0, Brokers: map[int32]string{}}
	for _, b := range m.Brokers {
		w.Brokers[b.ID()] = b.Addr()
	}
	for _, t := range m.Topics {
		wt := vwTopic{Name: t.Name, Err: int16(t.Err), Parts: map[int32]*vPart{}}
		for _, p := range t.Partitions {
			vp := &vPart{Leader: p.Leader, Replicas: p.Replicas, Isr: p.Isr, Offline: p.OfflineReplicas, Err: int16(p.Err)}
			if req.Version < 5 {
				vp.Offline = nil // not on the wire before metadata v5
			}
			wt.Parts[p.ID] = vp
		}
		w.Topics = append(w.Topics, wt)
	}
	cs.mu.Lock()
	if cs.metaResp[conn] == nil {
		cs.metaResp[conn] = map[int32]bool{}
	}
	cs.metaResp[conn][corr] = true
	w.Idx = cs.nWrites
	cs.nWrites++
	op := &cOp{isWrite: true, w: w, call: 0, conn: conn, corr: corr}
	for id := range cs.active {
		op.inFlight = append(op.inFlight, id)
	}
	cs.ops = append(cs.ops, op)
	cs.mu.Unlock()
	op.call = cs.r.k.stamp()
	if len(op.inFlight) > 1 {
		cs.r.probe("response-served-while-several-calls-in-progress")
	}
	if cs.anyDown() {
		cs.markUnreach()
	}
}

func (cs *clientScen) begin(op *cOp) int {
	cs.mu.Lock()
	cs.nextID++
	id := cs.nextID
	if len(cs.active) > 0 {
		op.overlapped = true
		for _, x := range cs.active {
			x.overlapped = true
		}
	}
	cs.active[id] = op
	cs.ops = append(cs.ops, op)
	cs.mu.Unlock()
	op.call = cs.r.k.stamp()
	return id
}

func (cs *clientScen) end(id int, op *cOp) {
	op.ret = cs.r.k.stamp()
	cs.mu.Lock()
	delete(cs.active, id)
	cs.mu.Unlock()
}

func errClass(err error) string {
	switch err {
	case nil:
		return ""
	case sarama.ErrUnknownTopicOrPartition:
		return "err:unknown"
	case sarama.ErrLeaderNotAvailable:
		return "err:leader-not-available"
	}
	if ke, ok := err.(sarama.KError); ok {
		return fmt.Sprintf("err:kerror-%d", int16(ke))
	}
	return "err:transport:" + err.Error()
}

func i32s(x []int32) string {
	return strings.Trim(strings.Join(strings.Fields(fmt.Sprint(x)), ","), "[]")
}

func (cs *clientScen) doOp(client sarama.Client, op *cf.Op) {
	k := cs.r.k
	if cs.anyDown() {
		cs.markUnreach()
	}
	if op.Op == "burst" {
		// wait until a metadata response reaches the client (or a while), then read back-to-back in the same instant
		cs.mu.Lock()
		ch := cs.burst
		cs.mu.Unlock()
		t := time.NewTimer(150 * time.Millisecond)
		select {
		case <-ch:
			cs.r.probe("read-burst-released-by-metadata-response")
		case <-t.C:
		case <-cs.r.closeNow:
		}
		t.Stop()
		for _, a := range op.Args {
			if cs.r.closing() {
				return
			}
			f := strings.Split(a, ":")
			sub := cf.Op{Op: "read", Actor: op.Actor, Arg: f[0]}
			if len(f) == 3 {
				sub.Topic = f[1]
				n, _ := strconv.Atoi(f[2])
				sub.Partition = int32(n)
			}
			cs.doOp(client, &sub)
		}
		return
	}
	if op.Op == "refresh" {
		o := &cOp{refresh: true, refreshTopics: op.Args, actor: op.Actor, invokeUs: k.nowUs()}
		healthy := cs.healthySeedsNow()
		o.healthy = healthy
		id := cs.begin(o)
		k.logf("a%d RefreshMetadata(%v)", op.Actor, op.Args)
		o.refreshErr = client.RefreshMetadata(op.Args...)
		cs.end(id, o)
		k.logf("a%d RefreshMetadata -> %v", op.Actor, o.refreshErr)
		if o.refreshErr != nil {
			if _, isK := o.refreshErr.(sarama.KError); !isK || o.refreshErr == sarama.ErrOutOfBrokers {
				if seed := cs.cleanSeedSince(o.invokeUs, healthy); seed != "" {
					cls := "sequential"
					if o.overlapped || cs.bg {
						cls = "concurrent-calls"
					}
					if cs.everyCleanSeedFailedADialBefore(o.invokeUs, healthy) {
						cls += ",every-clean-seed-failed-the-client-earlier"
					}
					cs.r.violateClass("C15.refresh-failed-despite-live-broker", cls, "RefreshMetadata(%v) failed with %v although seed broker %s was reachable and fault-free during the whole call [%s]", op.Args, o.refreshErr, seed, cls)
				}
			}
		}
		return
	}
	rd := cRead{Kind: op.Arg, Topic: op.Topic, Partition: op.Partition}
	o := &cOp{rd: rd, actor: op.Actor, invokeUs: k.nowUs(), healthy: cs.healthySeedsNow()}
	id := cs.begin(o)
	var out string
	switch rd.Kind {
	case "partitions":
		v, err := client.Partitions(rd.Topic)
		out = errClass(err)
		if err == nil {
			out = "ok:" + i32s(v)
			if !sort.SliceIsSorted(v, func(i, j int) bool { return v[i] < v[j] }) {
				cs.r.violate("C15.view-not-linearizable", "Partitions(%s) not sorted: %v", rd.Topic, v)
			}
		}
	case "writable":
		v, err := client.WritablePartitions(rd.Topic)
		out = errClass(err)
		if err == nil {
			out = "ok:" + i32s(v)
		}
	case "leader":
		b, err := client.Leader(rd.Topic, rd.Partition)
		out = errClass(err)
		if err == nil {
			out = fmt.Sprintf("ok:%d@%s", b.ID(), b.Addr())
		}
	case "replicas":
		v, err := client.Replicas(rd.Topic, rd.Partition)
		out = errClass(err)
		if err == nil {
			out = "ok:" + i32s(v)
		}
	case "isr":
		v, err := client.InSyncReplicas(rd.Topic, rd.Partition)
		out = errClass(err)
		if err == nil {
			out = "ok:" + i32s(v)
		}
	case "offline":
		v, err := client.OfflineReplicas(rd.Topic, rd.Partition)
		out = errClass(err)
		if err == nil {
			out = "ok:" + i32s(v)
		}
	case "brokers":
		var l []string
		for _, b := range client.Brokers() {
			l = append(l, fmt.Sprintf("%d@%s", b.ID(), b.Addr()))
		}
		sort.Strings(l)
		out = "ok:" + strings.Join(l, " ")
	}
	o.out = out
	cs.end(id, o)
	cs.mu.Lock()
	o.tolerant = cs.unreach
	cs.mu.Unlock()
	k.logf("a%d %s(%s/%d) -> %s", op.Actor, rd.Kind, rd.Topic, rd.Partition, out)
}

func (cs *clientScen) onHang(dump string) {
	frames := blockedSaramaFrames(dump)
	// A call that never returns breaks C15 only if a broker the client knew answered all along: the property
	// promises success "whenever at least one seed or known broker answers", nothing about a cluster that is
	// entirely out of reach.
	cs.mu.Lock()
	var stuck []*cOp
	for _, o := range cs.active {
		stuck = append(stuck, o)
	}
	cs.mu.Unlock()
	flagged := false
	for _, o := range stuck {
		if seed := cs.cleanSeedSince(o.invokeUs, o.healthy); seed != "" {
			cs.r.violate("C15.refresh-failed-despite-live-broker", "a client call did not return within the liveness bound although seed broker %s was reachable and fault-free all along; parked: %v", seed, frames)
			flagged = true
		}
	}
	cs.mu.Lock()
	closeStuck := cs.closeInvoked && !cs.closeDone
	cs.mu.Unlock()
	if closeStuck {
		cs.r.violate("C12.close-hang", "Client.Close did not return; parked: %v", frames)
		flagged = true
	}
	if !flagged {
		cs.r.probe("call-pending-for-ever-while-no-known-broker-reachable")
		cs.r.hangBenign = true
	}
}

// ---- post-run: linearizability against the reference view (porcupine) ----

type pIn struct {
	write *vWrite
	rd    cRead
	tol   bool
}

func (cs *clientScen) post() {
	if cs.c.Property == "C12" {
		return // shutdown runs are judged by the C12 rules only; the linearizability check belongs to C15/C06
	}
	// A served response is applied by the call that requested it before that call returns. Which call
	// that was is not observable, so the write's return stamp is the latest return among the app calls
	// in progress when it was served (NewClient's own refresh: the moment NewClient returned). With a
	// background refresher the requester may be invisible: the write stays pending for ever.
	var ops []porcupine.Operation
	const inf = int64(1) << 60
	nR := 0
	for i, o := range cs.ops {
		if o.refresh {
			continue
		}
		if o.isWrite {
			ret := inf
			// only a response that reached a healthy connection is certainly applied by its requester
			received := false
			if o.conn != nil {
				o.conn.mu.Lock()
				received = o.conn.deliveredCorr[o.corr] && !o.conn.sawError
				o.conn.mu.Unlock()
			}
			if !cs.bg && received {
				var maxRet uint64
				open, n := false, 0
				for _, x := range cs.ops {
					if x.isWrite || x.call > o.call {
						continue
					}
					if x.ret == 0 {
						open = true
						n++
					} else if x.ret > o.call {
						n++
						if x.ret > maxRet {
							maxRet = x.ret
						}
					}
				}
				switch {
				case open:
				case n > 0:
					ret = int64(maxRet)
				case cs.createdAt > o.call:
					ret = int64(cs.createdAt)
				}
			}
			ops = append(ops, porcupine.Operation{ClientId: 1000 + i, Input: pIn{write: o.w}, Call: int64(o.call), Output: "", Return: ret})
			continue
		}
		if o.ret == 0 {
			continue
		}
		nR++
		ops = append(ops, porcupine.Operation{ClientId: o.actor, Input: pIn{rd: o.rd, tol: o.tolerant}, Call: int64(o.call), Output: o.out, Return: int64(o.ret)})
	}
	if nR == 0 {
		return
	}
	model := porcupine.Model{
		Init: func() interface{} { return (&vState{B: map[int32]string{}, T: map[string]*vTopic{}}).key() },
		Step: func(state, input, output interface{}) (bool, interface{}) {
			var s vState
			_ = json.Unmarshal([]byte(state.(string)), &s)
			if s.B == nil {
				s.B = map[int32]string{}
			}
			if s.T == nil {
				s.T = map[string]*vTopic{}
			}
			in := input.(pIn)
			if in.write != nil {
				return true, applyWrite(&s, in.write).key()
			}
			want := render(&s, in.rd)
			got := output.(string)
			if got == want {
				return true, state
			}
			if in.rd.Kind == "brokers" {
				// set-aside brokers: the client may hold a subset of the newest list, never a stale entry
				if in.tol && subsetOf(got, want) {
					return true, state
				}
				return false, state
			}
			if strings.HasPrefix(got, "err:transport") || strings.HasPrefix(got, "err:kerror") {
				// a read that missed and whose refresh failed: legal only if the state misses the datum
				return strings.HasPrefix(want, "err:") || in.tol, state
			}
			if in.tol && got == "err:leader-not-available" && in.rd.Kind == "leader" && strings.HasPrefix(want, "ok:") {
				return true, state // leader's broker set aside after a failed request
			}
			return false, state
		},
		DescribeOperation: func(input, output interface{}) string {
			in := input.(pIn)
			if in.write != nil {
				var ts []string
				for _, t := range in.write.Topics {
					ts = append(ts, fmt.Sprintf("%s:e%d:%dp", t.Name, t.Err, len(t.Parts)))
				}
				return fmt.Sprintf("resp#%d full=%v brokers=%v %v", in.write.Idx, in.write.Full, in.write.Brokers, ts)
			}
			t := ""
			if in.tol {
				t = " (after unreachability)"
			}
			return fmt.Sprintf("%s(%s/%d)=%v%s", in.rd.Kind, in.rd.Topic, in.rd.Partition, output, t)
		},
	}
	res := porcupine.CheckOperationsTimeout(model, ops, 20*time.Second)
	cls := ""
	if res == porcupine.Illegal && notConnectedLogged {
		// The client itself reported that it gave a broker up on ErrNotConnected (the Broker.Open race, known finding
		// KF-C15-open-race): is the history explained once the reads are granted the tolerance that injected
		// unreachability would grant (a subset of the broker list, "leader not available")? If so the violation is
		// classed as that finding's consequence; if not it is reported as an unexplained one.
		ops2 := make([]porcupine.Operation, len(ops))
		copy(ops2, ops)
		for i := range ops2 {
			if in, ok := ops2[i].Input.(pIn); ok && in.write == nil {
				in.tol = true
				ops2[i].Input = in
			}
		}
		if porcupine.CheckOperationsTimeout(model, ops2, 20*time.Second) == porcupine.Ok {
			cls = "after-broker-not-connected,explained-by-set-aside-brokers"
		}
	}
	switch res {
	case porcupine.Illegal:
		var lines []string
		for _, o := range ops {
			lines = append(lines, fmt.Sprintf("[%d,%d] %s", o.Call, o.Return, model.DescribeOperation(o.Input, o.Output)))
		}
		if len(lines) > 40 {
			lines = lines[:40]
		}
		cs.r.violateClass("C15.view-not-linearizable", cls, "client reads cannot be explained by any order of the served metadata responses (each read must see exactly the state after some prefix-consistent application of responses):\n%s", strings.Join(lines, "\n"))
	case porcupine.Unknown:
		cs.r.inconclusive = "porcupine timed out"
	}
	cs.r.probes["porcupine-ops"] += len(ops)
}

func subsetOf(got, want string) bool {
	w := map[string]bool{}
	for _, x := range strings.Fields(strings.TrimPrefix(want, "ok:")) {
		w[x] = true
	}
	for _, x := range strings.Fields(strings.TrimPrefix(got, "ok:")) {
		if !w[x] {
			return false
		}
	}
	return true
}

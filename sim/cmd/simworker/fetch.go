package main

import (
	"fmt"
	"strings"
	"time"

	"github.com/Shopify/sarama"

	"simverif/cf"
)

// fetchModel serves Fetch and ListOffsets from the model logs the way a broker frames data
// (DESIGN.md Appendix A), with its own encoder.
type fetchModel struct {
	cl      *cluster
	pending []*pendingFetch
	rng     *cf.Rng
	// what the broker answered to the latest "newest"/"oldest" ListOffsets per partition (oracle input)
	answered map[string]int64
	onServe  func(key string, fetchOffset int64, firstServed, lastServed int64)
}

type pendingFetch struct {
	c        *simConn
	h        reqHeader
	req      *fetchReq
	deadline time.Time
	done     bool
}

func newFetchModel(cl *cluster, seed uint64) *fetchModel {
	return &fetchModel{cl: cl, rng: &cf.Rng{S: seed}, answered: map[string]int64{}}
}

func (f *fetchModel) timedFault(x *cf.Fault) bool {
	switch x.Do {
	case "append":
		return true
	}
	return false
}

// loadLogs installs the pre-loaded logs of the case and schedules in-run appends.
func (f *fetchModel) loadLogs(c *cf.Case) {
	for i := range c.Cluster.Logs {
		lg := &c.Cluster.Logs[i]
		mp := f.cl.part(lg.Topic, lg.Partition)
		if mp == nil {
			panic("log for unknown partition")
		}
		mp.magic = lg.Magic
		mp.absInner = lg.AbsInner
		mp.logStart = lg.LogStart
		mp.leo = lg.LogStart
		for j := range lg.Batches {
			b := &lg.Batches[j]
			if b.AtUs > 0 {
				bb := b
				f.cl.k.after(time.Duration(b.AtUs)*time.Microsecond, func() {
					f.storeBatch(mp, bb)
					f.wake()
				})
				continue
			}
			f.storeBatch(mp, b)
		}
	}
}

func recKey(id, n int) []byte {
	if n < 0 {
		return nil
	}
	if n == 0 {
		return []byte{}
	}
	return pad(fmt.Sprintf("k%d", id), n)
}

func recVal(id, n int) []byte {
	if n < 0 {
		return nil
	}
	return msgValue(id, n)
}

func (f *fetchModel) storeBatch(mp *mpart, b *cf.Batch) {
	base := b.Base
	if base < mp.leo {
		base = mp.leo
	}
	wb := wbatch{magic: int8(mp.magic), codec: codecID(b.Codec), baseOffset: base, pid: -1, epoch: -1, baseSeq: -1}
	if mp.magic == 2 {
		if b.PID > 0 {
			wb.pid = b.PID
			wb.epoch = 0
			wb.baseSeq = 0
		}
		wb.txn = b.Txn
		wb.control = b.Control != ""
	}
	mb := &mbatch{first: base, atUs: f.cl.k.nowUs()}
	maxTs := int64(-1)
	for i, r := range b.Recs {
		d := int64(i)
		if len(b.Deltas) == len(b.Recs) {
			d = int64(b.Deltas[i])
		}
		wr := wrec{key: recKey(r.ID, r.KeyLen), val: recVal(r.ID, r.ValLen), delta: d, tsMs: r.TsMs}
		if mp.magic == 0 {
			wr.tsMs = -1
		}
		if b.Control != "" {
			// control record: key = version(int16) type(int16), value = version(int16) coordinatorEpoch(int32)
			typ := byte(1) // commit
			if b.Control == "abort" {
				typ = 0
			}
			wr.key = []byte{0, 0, 0, typ}
			wr.val = []byte{0, 0, 0, 0, 0, 0}
		}
		for h := 0; h < r.Headers && mp.magic == 2; h++ {
			hv := []byte(fmt.Sprintf("v%d-%d", r.ID, h))
			if h == 1 {
				hv = nil
			}
			wr.headers = append(wr.headers, hdr{[]byte(fmt.Sprintf("h%d", h)), hv})
		}
		if wr.tsMs > maxTs {
			maxTs = wr.tsMs
		}
		wb.recs = append(wb.recs, wr)
		mb.recs = append(mb.recs, &mrec{offset: base + d, key: wr.key, val: wr.val, headers: wr.headers, tsMs: wr.tsMs, batch: mb})
	}
	if len(wb.recs) > 0 {
		wb.firstTs = wb.recs[0].tsMs
	}
	wb.maxTs = maxTs
	if b.AppendTsMs > 0 && mp.magic >= 1 && b.Control == "" {
		// LogAppendTime topic: the broker set the timestamp-type bit and stamped the batch (v2: MaxTimestamp; v1: the
		// message or wrapper timestamp); every record of the batch carries that time for a consumer
		wb.logAppend = true
		wb.wrapperOnlyTs = b.AppendTsMs%2 == 0
		wb.maxTs = b.AppendTsMs
		for _, r := range mb.recs {
			r.tsMs = b.AppendTsMs
		}
	}
	last := int64(0)
	if n := len(wb.recs); n > 0 {
		last = wb.recs[n-1].delta
	}
	if int64(b.LastDelta) > last {
		last = int64(b.LastDelta)
	}
	wb.lastDelta = int32(last)
	mb.wb = wb
	mb.last = base + last
	mp.leo = mb.last + 1
	mp.batches = append(mp.batches, mb)
	// transaction bookkeeping
	if mp.magic == 2 && b.PID > 0 {
		if b.Control != "" {
			if first, open := mp.openTxn[b.PID]; open {
				if b.Control == "abort" {
					mp.aborted = append(mp.aborted, abortedTxn{pid: b.PID, first: first, last: mb.first})
				}
				delete(mp.openTxn, b.PID)
			}
		} else if b.Txn {
			if _, open := mp.openTxn[b.PID]; !open {
				mp.openTxn[b.PID] = mb.first
			}
		}
	}
}

func (mp *mpart) lso() int64 {
	l := mp.leo
	for _, first := range mp.openTxn {
		if first < l {
			l = first
		}
	}
	return l
}

func (f *fetchModel) encodeStored(mp *mpart, b *mbatch) []byte {
	if b.wb.magic == 2 {
		return encodeBatchV2(&b.wb)
	}
	return encodeLegacy(&b.wb, mp.absInner)
}

type fetchBlock struct {
	topic   string
	part    int32
	err     int16
	hwm     int64
	lso     int64
	logStart int64
	aborted []abortedTxn
	data    []byte
	omit    bool
}

func (f *fetchModel) handleFetch(c *simConn, h reqHeader) {
	cl := f.cl
	req, err := decodeFetch(h.ver, h.body)
	if err != nil {
		R.violate(propRule("request-undecodable"), "fetch v%d request does not parse: %v", h.ver, err)
		c.serverClose(true)
		return
	}
	names := func(t string, p int32) bool {
		for _, x := range req.parts {
			if x.topic == t && x.partition == p {
				return true
			}
		}
		return false
	}
	fault := cl.matchRule("Fetch", c.br, names)
	var desc []string
	for _, p := range req.parts {
		desc = append(desc, fmt.Sprintf("%s/%d@%d<=%d", p.topic, p.partition, p.offset, p.maxBytes))
	}
	cl.k.logf("b%d c%d Fetch v%d corr=%d %s", c.br.id, c.id, h.ver, h.corr, strings.Join(desc, " "))
	if fault != nil {
		switch fault.Do {
		case "drop-before", "drop-after":
			cl.k.logf("  -> fault %s", fault.Do)
			cl.noteFault(fault.Do)
			c.serverClose(false)
			return
		case "silence":
			cl.k.logf("  -> fault silence")
			cl.noteFault("silence")
			return
		case "throttle-empty":
			cl.noteFault("throttle-empty")
			cl.k.logf("  -> fault throttle-empty")
			cl.respond(c, respHeader(h.corr, f.encode(h.ver, nil, 100)), 0)
			return
		}
	}
	pf := &pendingFetch{c: c, h: h, req: req, deadline: time.Now().Add(time.Duration(req.maxWaitMs) * time.Millisecond)}
	if f.tryComplete(pf, fault, false) {
		return
	}
	f.pending = append(f.pending, pf)
	cl.k.after(time.Duration(req.maxWaitMs)*time.Millisecond, func() {
		if !pf.done {
			f.tryComplete(pf, nil, true)
		}
	})
}

func (f *fetchModel) wake() {
	var keep []*pendingFetch
	for _, pf := range f.pending {
		if pf.done {
			continue
		}
		if !f.tryComplete(pf, nil, false) {
			keep = append(keep, pf)
		}
	}
	f.pending = keep
}

// tryComplete builds the response; unless force, it declines when fewer than minBytes are available
// and no partition reports an error (long poll).
func (f *fetchModel) tryComplete(pf *pendingFetch, fault *cf.Fault, force bool) bool {
	cl := f.cl
	c, h, req := pf.c, pf.h, pf.req
	if c.isDead() || !c.br.up {
		pf.done = true
		return true
	}
	var blocks []*fetchBlock
	total := 0
	anyErr := false
	respBudget := int(req.maxBytes)
	if h.ver < 3 || respBudget <= 0 {
		respBudget = 1 << 30
	}
	for _, p := range req.parts {
		blk := &fetchBlock{topic: p.topic, part: p.partition, hwm: -1, lso: -1, logStart: -1}
		blocks = append(blocks, blk)
		mp := cl.part(p.topic, p.partition)
		faultHere := fault != nil && (fault.AllParts || (fault.Topic == p.topic && fault.Partition == p.partition))
		switch {
		case mp == nil:
			blk.err = int16(sarama.ErrUnknownTopicOrPartition)
		case mp.leader != c.br.id:
			blk.err = int16(sarama.ErrNotLeaderForPartition)
		case fault != nil && fault.Do == "errcode" && faultHere:
			blk.err = int16(fault.Code)
			cl.noteFault("fetch-errcode")
		case p.offset < mp.logStart || p.offset > mp.leo:
			blk.err = int16(sarama.ErrOffsetOutOfRange)
			blk.hwm, blk.logStart = mp.leo, mp.logStart
		}
		if blk.err != 0 {
			anyErr = true
			continue
		}
		if fault != nil && fault.Do == "missing-block" && faultHere {
			blk.omit = true
			anyErr = true
			cl.noteFault("incomplete-response")
			continue
		}
		blk.hwm, blk.lso, blk.logStart = mp.leo, mp.lso(), mp.logStart
		limit := mp.leo
		if req.isolation == 1 {
			limit = blk.lso
		}
		budget := int(p.maxBytes)
		if budget > respBudget {
			budget = respBudget
		}
		first, last := int64(-1), int64(-1)
		for _, b := range mp.batches {
			if b.last < p.offset {
				continue
			}
			if b.first >= limit {
				break
			}
			if b.last >= limit && b.wb.magic == 2 {
				break // whole batches only below the visible end
			}
			enc := f.encodeStored(mp, b)
			if len(blk.data)+len(enc) > budget {
				if h.ver >= 3 {
					if len(blk.data) == 0 && total == 0 {
						// minOneMessage: the first batch of the first non-empty partition is returned whole
						blk.data = append(blk.data, enc...)
						R.probe("oversize-first-batch-returned-whole")
						first, last = b.first, b.last
					} else if room := budget - len(blk.data); room > 0 && f.rng.Intn(2) == 0 {
						// a broker reads a byte range of the segment: beyond the guaranteed first batch the
						// data may still end in the middle of a batch
						blk.data = append(blk.data, enc[:room]...)
						R.probe("partial-trailing-batch-v3plus")
						cl.noteFaultQuiet("partial-trailing")
					}
				} else {
					// old fetch versions cut the byte stream at the budget (partial trailing message)
					room := budget - len(blk.data)
					if room > 0 {
						blk.data = append(blk.data, enc[:room]...)
						R.probe("partial-trailing-message")
						cl.noteFaultQuiet("partial-trailing")
					}
				}
				break
			}
			blk.data = append(blk.data, enc...)
			if first < 0 {
				first = b.first
			}
			last = b.last
		}
		if fault != nil && fault.Do == "flip-checksummed" && faultHere && len(blk.data) > 30 {
			// flip one bit inside the CRC-covered bytes of the first batch/message (bytes outside a
			// checksum - base offset, length - are not protected by the protocol and are left alone)
			elen := 12 + int(int32(uint32(blk.data[8])<<24|uint32(blk.data[9])<<16|uint32(blk.data[10])<<8|uint32(blk.data[11])))
			if elen > len(blk.data) {
				elen = len(blk.data)
			}
			lo := 16
			if mp.magic == 2 {
				lo = 21
			}
			if elen <= lo {
				lo = elen - 1
			}
			pos := lo + f.rng.Intn(elen-lo)
			blk.data = append([]byte(nil), blk.data...)
			blk.data[pos] ^= 1 << uint(f.rng.Intn(8))
			cl.noteFault("flip-checksummed")
			cl.k.logf("  -> flipped a bit at %d of %s/%d data", pos, p.topic, p.partition)
		}
		if req.isolation == 1 && h.ver >= 4 && last >= 0 {
			for _, a := range mp.aborted {
				if a.last >= p.offset && a.first <= last {
					blk.aborted = append(blk.aborted, a)
				}
			}
			// any order
			for i := len(blk.aborted) - 1; i > 0; i-- {
				j := f.rng.Intn(i + 1)
				blk.aborted[i], blk.aborted[j] = blk.aborted[j], blk.aborted[i]
			}
		}
		total += len(blk.data)
		respBudget -= len(blk.data)
		if respBudget < 0 {
			respBudget = 0
		}
		if f.onServe != nil && first >= 0 {
			f.onServe(mp.key(), p.offset, first, last)
		}
	}
	if !force && !anyErr && total < int(req.minBytes) {
		return false
	}
	if !force && !anyErr && total == 0 {
		return false
	}
	pf.done = true
	var desc []string
	for _, b := range blocks {
		if b.omit {
			desc = append(desc, fmt.Sprintf("%s/%d:MISSING", b.topic, b.part))
		} else {
			desc = append(desc, fmt.Sprintf("%s/%d:err%d,%dB,hwm%d", b.topic, b.part, b.err, len(b.data), b.hwm))
		}
	}
	cl.k.logf("b%d c%d FetchResponse corr=%d %s", c.br.id, c.id, h.corr, strings.Join(desc, " "))
	var delay time.Duration
	if fault != nil && fault.Do == "delay" {
		delay = time.Duration(fault.Us) * time.Microsecond
		cl.noteFault("delay")
	}
	cl.respond(c, respHeader(h.corr, f.encode(h.ver, blocks, 0)), delay)
	return true
}

func (cl *cluster) noteFaultQuiet(kind string) { R.fired(kind) }

func (f *fetchModel) encode(ver int16, blocks []*fetchBlock, throttleMs int32) []byte {
	var w wr
	if ver >= 1 {
		w.i32(throttleMs)
	}
	if ver >= 7 {
		w.i16(0)
		w.i32(0)
	}
	var topics []string
	by := map[string][]*fetchBlock{}
	for _, b := range blocks {
		if b.omit {
			continue
		}
		if _, ok := by[b.topic]; !ok {
			topics = append(topics, b.topic)
		}
		by[b.topic] = append(by[b.topic], b)
	}
	w.i32(int32(len(topics)))
	for _, t := range topics {
		w.str(t)
		w.i32(int32(len(by[t])))
		for _, b := range by[t] {
			w.i32(b.part)
			w.i16(b.err)
			w.i64(b.hwm)
			if ver >= 4 {
				w.i64(b.lso)
				if ver >= 5 {
					w.i64(b.logStart)
				}
				if b.aborted == nil {
					w.i32(-1)
				} else {
					w.i32(int32(len(b.aborted)))
					for _, a := range b.aborted {
						w.i64(a.pid)
						w.i64(a.first)
					}
				}
			}
			if ver >= 11 {
				w.i32(-1)
			}
			w.i32(int32(len(b.data)))
			w.raw(b.data)
		}
	}
	return w.b
}

// listOffsets answers an OffsetRequest (v0/v1).
func (f *fetchModel) listOffsets(br *mbroker, r *sarama.OffsetRequest, fault *cf.Fault) *sarama.OffsetResponse {
	cl := f.cl
	res := &sarama.OffsetResponse{Version: r.Version}
	for _, tp := range sarama.VerifOffsetRequestBlocks(r) {
		mp := cl.part(tp.Topic, tp.Partition)
		key := fmt.Sprintf("%s/%d", tp.Topic, tp.Partition)
		switch {
		case mp == nil:
			res.AddTopicPartition(tp.Topic, tp.Partition, -1)
			res.Blocks[tp.Topic][tp.Partition].Err = sarama.ErrUnknownTopicOrPartition
		case mp.leader != br.id:
			res.AddTopicPartition(tp.Topic, tp.Partition, -1)
			res.Blocks[tp.Topic][tp.Partition].Err = sarama.ErrNotLeaderForPartition
		case fault != nil && fault.Do == "errcode":
			res.AddTopicPartition(tp.Topic, tp.Partition, -1)
			res.Blocks[tp.Topic][tp.Partition].Err = sarama.KError(fault.Code)
			cl.noteFault("listoffsets-errcode")
		default:
			off := mp.leo
			if tp.Time == -2 {
				off = mp.logStart
			}
			res.AddTopicPartition(tp.Topic, tp.Partition, off)
			f.answered[fmt.Sprintf("%s|%d", key, tp.Time)] = off
			cl.k.logf("b%d ListOffsets %s time=%d -> %d", br.id, key, tp.Time, off)
		}
	}
	return res
}

package main

import "simverif/cf"

type fetchModel struct{}

func (f *fetchModel) timedFault(x *cf.Fault) bool     { return false }
func (f *fetchModel) handleFetch(c *simConn, h reqHeader) {}

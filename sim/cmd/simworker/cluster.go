package main

import (
	"fmt"
	"sort"
	"strings"
	"sync"
	"time"

	"github.com/Shopify/sarama"

	"simverif/cf"
)

// ---- model state ----

type mrec struct {
	offset  int64
	key     []byte
	val     []byte
	headers []hdr
	tsMs    int64
	batch   *mbatch
}

// mbatch is a stored batch (v2) or legacy entry (single message or compressed wrapper).
type mbatch struct {
	wb      wbatch
	first   int64 // first offset
	last    int64 // last offset (>= last record's offset when compacted)
	recs    []*mrec
	atUs    int64
	connID  int
	reqNo   int
	faulted string // fault applied to the request that carried it ("" none)
}

type idemState struct {
	epoch   int16
	lastSeq int32
	cache   [][3]int64 // firstSeq, lastSeq, baseOffset (last five)
}

type mpart struct {
	topic    string
	id       int32
	leader   int32 // -1 none
	replicas []int32
	isr      []int32
	magic    int // storage format for consumer-side logs
	absInner bool
	logStart int64
	batches  []*mbatch
	leo      int64 // log end offset
	idem     map[int64]*idemState
	aborted  []abortedTxn
	openTxn  map[int64]int64 // pid -> first offset of the open transaction
	leaderHist []int32       // every broker that has led this partition
}

type abortedTxn struct {
	pid         int64
	first, last int64 // last = offset of the abort marker
}

func (p *mpart) key() string { return fmt.Sprintf("%s/%d", p.topic, p.id) }

type mtopic struct {
	name  string
	parts []*mpart
	err   int16 // topic-level metadata error
}

type mbroker struct {
	dirtyUs   int64 // last time a fault made this broker unreachable / misbehave (-1 never)
	id        int32
	addr      string
	up        bool
	blackhole bool
	conns     []*simConn
}

type ruleState struct {
	f     *cf.Fault
	idx   int
	seen  int
	fired bool
}

type cluster struct {
	k          *kernel
	mu         sync.Mutex // guards broker up/conns (touched by dialer goroutines)
	brokers    map[int32]*mbroker
	order      []int32
	topics     map[string]*mtopic
	controller int32
	nConn      int
	rules      []*ruleState
	reqNo      int
	view       int
	pidNext    int64
	lastFaultUs int64
	// hooks for scenario oracles
	discarding bool // the response being computed will never reach the client
	onView    func()
	onDialFail func()
	dialFailUs map[string]int64 // address -> last time a dial to it failed
	onFault    func(kind string)
	onMetadata func(br *mbroker, c *simConn, corr int32, r *sarama.MetadataRequest, m *sarama.MetadataResponse)
	onGarbage func(c *simConn, h reqHeader, kind string)
	onRequest func(c *simConn, h reqHeader, body interface{}, fault *cf.Fault)
	retryPending map[string]bool // partition -> a retriable error was answered and nothing has been appended since
	onDeliver func(c *simConn, corr int32)
	onAppend  func(p *mpart, b *mbatch, pr *produceReq)
	onProduce func(br *mbroker, c *simConn, ver int16, frameLen int, pr *produceReq, sets map[string][]wbatch)
	extra     func(br *mbroker, c *simConn, h reqHeader, body interface{}, fault *cf.Fault) (resp []byte, handled bool, noResponse bool)
	fetch     *fetchModel
	group     *groupModel
}

func brokerAddr(id int32) string { return fmt.Sprintf("b%d:9092", id) }

func newCluster(k *kernel, c *cf.Case) *cluster {
	cl := &cluster{k: k, brokers: map[int32]*mbroker{}, topics: map[string]*mtopic{}, pidNext: 7000, retryPending: map[string]bool{}}
	for _, id := range c.Cluster.Brokers {
		cl.brokers[id] = &mbroker{id: id, addr: brokerAddr(id), up: true, dirtyUs: -1}
		cl.order = append(cl.order, id)
	}
	cl.controller = c.Cluster.Controller
	if cl.controller == 0 && len(cl.order) > 0 {
		cl.controller = cl.order[0]
	}
	for _, t := range c.Cluster.Topics {
		mt := &mtopic{name: t.Name}
		for _, p := range t.Partitions {
			mp := &mpart{topic: t.Name, id: p.ID, leader: p.Leader, replicas: p.Replicas, idem: map[int64]*idemState{}, openTxn: map[int64]int64{}, magic: -1}
			if len(mp.replicas) == 0 {
				mp.replicas = []int32{p.Leader}
			}
			mp.isr = append([]int32(nil), mp.replicas...)
			mt.parts = append(mt.parts, mp)
		}
		cl.topics[t.Name] = mt
	}
	for i := range c.Faults {
		f := &c.Faults[i]
		cl.rules = append(cl.rules, &ruleState{f: f, idx: i})
		if f.When.API == "" {
			rs := cl.rules[len(cl.rules)-1]
			k.after(time.Duration(f.When.AtUs)*time.Microsecond, func() { cl.timedFault(rs) })
		}
	}
	return cl
}

func (cl *cluster) brokerByAddr(a string) *mbroker {
	cl.mu.Lock()
	defer cl.mu.Unlock()
	for _, id := range cl.order {
		if cl.brokers[id].addr == a {
			return cl.brokers[id]
		}
	}
	return nil
}

func (cl *cluster) part(topic string, id int32) *mpart {
	t := cl.topics[topic]
	if t == nil {
		return nil
	}
	for _, p := range t.parts {
		if p.id == id {
			return p
		}
	}
	return nil
}

func (cl *cluster) seedAddrs() []string {
	var out []string
	for _, id := range cl.order {
		out = append(out, cl.brokers[id].addr)
	}
	return out
}

func (cl *cluster) noteFault(kind string) {
	R.fired(kind)
	if cl.onFault != nil {
		cl.onFault(kind)
	}
	cl.lastFaultUs = cl.k.nowUs()
}

func (cl *cluster) bumpView() {
	cl.view++
	if cl.onView != nil {
		cl.onView()
	}
}

// ---- timed faults ----

func (cl *cluster) timedFault(rs *ruleState) {
	f := rs.f
	rs.fired = true
	switch f.Do {
	case "leader-move":
		if p := cl.part(f.Topic, f.Partition); p != nil {
			cl.k.logf("fault leader-move %s %d->%d", p.key(), p.leader, f.To)
			p.leaderHist = append(p.leaderHist, p.leader)
			p.leader = f.To
			cl.bumpView()
			cl.noteFault("leader-move")
		}
	case "broker-down":
		cl.brokerDown(f.Broker, f.Arg == "hole")
		cl.noteFault("broker-crash")
	case "broker-up":
		cl.brokerUp(f.Broker)
		cl.noteFault("restart")
	case "controller-move":
		if f.Us > 0 {
			// an election: no controller at all for a while, then the new one
			cl.k.logf("fault controller-move %d->(none for %d us)->%d", cl.controller, f.Us, f.To)
			cl.controller = -1
			cl.bumpView()
			cl.noteFault("controller-move")
			cl.noteFault("controller-election-gap")
			to := f.To
			cl.k.after(time.Duration(f.Us)*time.Microsecond, func() {
				if cl.controller == -1 {
					cl.controller = to
					cl.k.logf("view controller elected: b%d", to)
					cl.bumpView()
				}
			})
			break
		}
		cl.k.logf("fault controller-move %d->%d", cl.controller, f.To)
		cl.controller = f.To
		cl.bumpView()
		cl.noteFault("controller-move")
	case "conn-reset":
		// reset every connection of a broker (broker stays up)
		if br := cl.brokers[f.Broker]; br != nil {
			cl.k.logf("fault conn-reset b%d", br.id)
			br.dirtyUs = cl.k.nowUs()
			cl.mu.Lock()
			conns := append([]*simConn(nil), br.conns...)
			cl.mu.Unlock()
			for _, c := range conns {
				c.serverClose(false)
			}
			cl.noteFault("conn-reset")
		}
	case "topic-add":
		mt := &mtopic{name: f.Topic}
		for i := 0; i < f.N; i++ {
			l := cl.order[(i+int(f.To))%len(cl.order)]
			mp := &mpart{topic: f.Topic, id: int32(i), leader: l, replicas: []int32{l}, isr: []int32{l}, idem: map[int64]*idemState{}, openTxn: map[int64]int64{}, magic: -1}
			mt.parts = append(mt.parts, mp)
		}
		cl.topics[f.Topic] = mt
		cl.k.logf("view topic-add %s x%d", f.Topic, f.N)
		cl.bumpView()
	case "topic-del":
		delete(cl.topics, f.Topic)
		cl.k.logf("view topic-del %s", f.Topic)
		cl.bumpView()
	case "topic-err":
		if t := cl.topics[f.Topic]; t != nil {
			t.err = int16(f.Code)
			cl.k.logf("view topic-err %s %d", f.Topic, f.Code)
			cl.bumpView()
		}
	case "part-add":
		if t := cl.topics[f.Topic]; t != nil {
			id := int32(len(t.parts))
			for _, p := range t.parts {
				if p.id >= id {
					id = p.id + 1
				}
			}
			l := cl.order[int(id)%len(cl.order)]
			t.parts = append(t.parts, &mpart{topic: f.Topic, id: id, leader: l, replicas: []int32{l}, isr: []int32{l}, idem: map[int64]*idemState{}, openTxn: map[int64]int64{}, magic: -1})
			cl.k.logf("view part-add %s/%d", f.Topic, id)
			cl.bumpView()
		}
	case "part-del":
		if t := cl.topics[f.Topic]; t != nil && len(t.parts) > 1 {
			t.parts = t.parts[:len(t.parts)-1]
			cl.k.logf("view part-del %s", f.Topic)
			cl.bumpView()
		}
	case "leader-none":
		if p := cl.part(f.Topic, f.Partition); p != nil {
			p.leader = -1
			cl.k.logf("view leader-none %s", p.key())
			cl.bumpView()
		}
	case "broker-add":
		if cl.brokers[f.Broker] == nil {
			cl.mu.Lock()
			cl.brokers[f.Broker] = &mbroker{id: f.Broker, addr: brokerAddr(f.Broker), up: true, dirtyUs: -1}
			cl.order = append(cl.order, f.Broker)
			cl.mu.Unlock()
			cl.k.logf("view broker-add b%d", f.Broker)
			cl.bumpView()
		}
	case "broker-del":
		if br := cl.brokers[f.Broker]; br != nil && len(cl.order) > 1 {
			cl.brokerDown(f.Broker, false)
			cl.mu.Lock()
			delete(cl.brokers, f.Broker)
			var o []int32
			for _, id := range cl.order {
				if id != f.Broker {
					o = append(o, id)
				}
			}
			cl.order = o
			cl.mu.Unlock()
			cl.k.logf("view broker-del b%d", f.Broker)
			cl.noteFault("broker-removed")
			cl.bumpView()
		}
	case "broker-readdr":
		if br := cl.brokers[f.Broker]; br != nil {
			cl.mu.Lock()
			conns := append([]*simConn(nil), br.conns...)
			br.addr = fmt.Sprintf("b%dr%d:9092", br.id, f.N)
			br.dirtyUs = cl.k.nowUs()
			cl.mu.Unlock()
			for _, c := range conns {
				c.serverClose(false)
			}
			cl.k.logf("view broker-readdr b%d -> %s", br.id, br.addr)
			cl.noteFault("broker-readdressed")
			cl.bumpView()
		}
	default:
		if cl.group != nil && cl.group.timedFault(f) {
			return
		}
		if cl.fetch != nil && cl.fetch.timedFault(f) {
			return
		}
		panic("unknown timed fault " + f.Do)
	}
}

func (cl *cluster) brokerDown(id int32, hole bool) {
	br := cl.brokers[id]
	if br == nil {
		return
	}
	cl.k.logf("fault broker-down b%d hole=%v", id, hole)
	br.dirtyUs = cl.k.nowUs()
	cl.mu.Lock()
	br.up = false
	br.blackhole = hole
	conns := append([]*simConn(nil), br.conns...)
	cl.mu.Unlock()
	for _, c := range conns {
		if hole {
			continue // existing connections go silent
		}
		c.serverClose(false)
	}
	// leadership moves to the next live replica, if any
	for _, t := range cl.sortedTopics() {
		for _, p := range t.parts {
			if p.leader == id {
				p.leader = -1
				for _, r := range p.replicas {
					if b := cl.brokers[r]; b != nil && b.up && r != id {
						p.leader = r
						break
					}
				}
			}
		}
	}
	if cl.controller == id {
		for _, o := range cl.order {
			if cl.brokers[o].up {
				cl.controller = o
				break
			}
		}
	}
	cl.bumpView()
}

func (cl *cluster) brokerUp(id int32) {
	br := cl.brokers[id]
	if br == nil {
		return
	}
	cl.k.logf("fault broker-up b%d", id)
	br.dirtyUs = cl.k.nowUs()
	cl.mu.Lock()
	br.up = true
	br.blackhole = false
	cl.mu.Unlock()
	for _, t := range cl.sortedTopics() {
		for _, p := range t.parts {
			if p.leader == -1 {
				for _, r := range p.replicas {
					if r == id {
						p.leader = id
					}
				}
			}
		}
	}
	cl.bumpView()
}

func (cl *cluster) sortedTopics() []*mtopic {
	var names []string
	for n := range cl.topics {
		names = append(names, n)
	}
	sort.Strings(names)
	var out []*mtopic
	for _, n := range names {
		out = append(out, cl.topics[n])
	}
	return out
}

// ---- request path ----

// onClientFrame is called from the client goroutine that completed a frame in Write.
func (cl *cluster) onClientFrame(c *simConn, frame []byte) {
	lat := cl.k.latency()
	at := time.Now().Add(lat)
	c.mu.Lock()
	c.written++
	if at.Before(c.lastArrive) {
		at = c.lastArrive
	}
	c.lastArrive = at
	c.mu.Unlock()
	if h, err := parseHeader(frame); err == nil {
		cl.k.logf("write c%d api=%d v%d corr=%d len=%d", c.id, h.api, h.ver, h.corr, len(frame))
		if hook := onWireWrite; hook != nil {
			hook(c, h, frame)
		}
	} else {
		cl.k.logf("write c%d unparsable frame len=%d", c.id, len(frame))
	}
	cl.k.after(time.Until(at), func() { cl.arrive(c, frame) })
}

var onWireWrite func(c *simConn, h reqHeader, frame []byte)

func (cl *cluster) arrive(c *simConn, frame []byte) {
	if c.isDead() || c.closing || !c.br.up {
		return
	}
	c.queue = append(c.queue, frame)
	cl.pump(c)
}

func (cl *cluster) pump(c *simConn) {
	for !c.busy && len(c.queue) > 0 {
		f := c.queue[0]
		c.queue = c.queue[1:]
		if c.isDead() || !c.br.up {
			c.queue = nil
			return
		}
		c.busy = true
		cl.handle(c, f)
	}
}

// respond hands a response to the network; the connection is then free for its next request.
func (cl *cluster) respond(c *simConn, resp []byte, extraDelay time.Duration) {
	lat := cl.k.latency() + extraDelay
	at := time.Now().Add(lat)
	if at.Before(c.lastDeliv) {
		at = c.lastDeliv
	}
	c.lastDeliv = at
	cl.k.after(time.Until(at), func() {
		if c.isDead() {
			return
		}
		c.mu.Lock()
		c.answered++
		if len(resp) >= 8 {
			if c.deliveredCorr == nil {
				c.deliveredCorr = map[int32]bool{}
			}
			c.deliveredCorr[int32(uint32(resp[4])<<24|uint32(resp[5])<<16|uint32(resp[6])<<8|uint32(resp[7]))] = true
			if c.deliveredAt == nil {
				c.deliveredAt = map[int32]int64{}
			}
			c.deliveredAt[int32(uint32(resp[4])<<24|uint32(resp[5])<<16|uint32(resp[6])<<8|uint32(resp[7]))] = cl.k.nowUs()
		}
		c.mu.Unlock()
		c.deliver(resp)
		if cl.onDeliver != nil && len(resp) >= 8 {
			cl.onDeliver(c, int32(uint32(resp[4])<<24|uint32(resp[5])<<16|uint32(resp[6])<<8|uint32(resp[7])))
		}
	})
	c.busy = false
	cl.pump(c)
}

// respondHeld delivers a response that was held back (join/sync): the connection was free meanwhile.
func (cl *cluster) respondHeld(c *simConn, resp []byte) {
	lat := cl.k.latency()
	at := time.Now().Add(lat)
	if at.Before(c.lastDeliv) {
		at = c.lastDeliv
	}
	c.lastDeliv = at
	cl.k.after(time.Until(at), func() {
		if c.isDead() {
			return
		}
		c.mu.Lock()
		c.answered++
		if len(resp) >= 8 {
			if c.deliveredCorr == nil {
				c.deliveredCorr = map[int32]bool{}
			}
			c.deliveredCorr[int32(uint32(resp[4])<<24|uint32(resp[5])<<16|uint32(resp[6])<<8|uint32(resp[7]))] = true
			if c.deliveredAt == nil {
				c.deliveredAt = map[int32]int64{}
			}
			c.deliveredAt[int32(uint32(resp[4])<<24|uint32(resp[5])<<16|uint32(resp[6])<<8|uint32(resp[7]))] = cl.k.nowUs()
		}
		c.mu.Unlock()
		c.deliver(resp)
	})
	if c.busy {
		c.busy = false
		cl.pump(c)
	}
}

// done: the request needs no response (acks=0); process the next one.
func (cl *cluster) done(c *simConn) {
	c.busy = false
	cl.pump(c)
}

func apiName(k int16) string {
	switch k {
	case 0:
		return "Produce"
	case 1:
		return "Fetch"
	case 2:
		return "ListOffsets"
	case 3:
		return "Metadata"
	case 8:
		return "OffsetCommit"
	case 9:
		return "OffsetFetch"
	case 10:
		return "FindCoordinator"
	case 11:
		return "JoinGroup"
	case 12:
		return "Heartbeat"
	case 13:
		return "LeaveGroup"
	case 14:
		return "SyncGroup"
	case 15:
		return "DescribeGroups"
	case 16:
		return "ListGroups"
	case 18:
		return "ApiVersions"
	case 19:
		return "CreateTopics"
	case 20:
		return "DeleteTopics"
	case 21:
		return "DeleteRecords"
	case 22:
		return "InitProducerId"
	case 37:
		return "CreatePartitions"
	case 42:
		return "DeleteGroups"
	case 45:
		return "AlterPartitionReassignments"
	case 46:
		return "ListPartitionReassignments"
	}
	return fmt.Sprintf("Api%d", k)
}

// matchRule returns the fault rule that fires for this request, if any.
func (cl *cluster) matchRule(api string, br *mbroker, names func(topic string, part int32) bool) *cf.Fault {
	var hit *cf.Fault
	for _, rs := range cl.rules {
		w := rs.f.When
		if (w.API != api && w.API != "*") || rs.fired {
			continue
		}
		if w.Broker != 0 && w.Broker != br.id {
			continue
		}
		if w.HasPart && (names == nil || !names(w.Topic, w.Partition)) {
			continue
		}
		rs.seen++
		if rs.seen == w.Nth && hit == nil {
			rs.fired = true
			hit = rs.f
			br.dirtyUs = cl.k.nowUs()
		}
	}
	return hit
}

func (cl *cluster) noteDialFail(addr string) {
	cl.mu.Lock()
	if cl.dialFailUs == nil {
		cl.dialFailUs = map[string]int64{}
	}
	cl.dialFailUs[addr] = cl.k.nowUs()
	cl.mu.Unlock()
}

func respHeader(corr int32, body []byte) []byte {
	var w wr
	w.i32(int32(len(body) + 4))
	w.i32(corr)
	w.raw(body)
	return w.b
}

func (cl *cluster) handle(c *simConn, frame []byte) {
	br := c.br
	h, err := parseHeader(frame)
	if err != nil {
		cl.k.logf("b%d c%d bad frame: %v", br.id, c.id, err)
		c.serverClose(true)
		return
	}
	cl.reqNo++
	api := apiName(h.api)
	switch h.api {
	case 8, 9, 11, 12, 13, 14:
		c.mu.Lock()
		c.groupAPI = true // the connection of the Broker object the client uses as group coordinator
		c.mu.Unlock()
	}
	switch h.api {
	case 0:
		cl.handleProduce(c, h, len(frame))
		return
	case 1:
		if cl.fetch != nil {
			cl.fetch.handleFetch(c, h)
			return
		}
	}
	_, _, body, derr := sarama.VerifDecodeRequest(frame)
	if derr != nil {
		cl.k.logf("b%d c%d undecodable %s v%d: %v", br.id, c.id, api, h.ver, derr)
		R.violate(propRule("request-undecodable"), "%s v%d request does not decode: %v", api, h.ver, derr)
		c.serverClose(true)
		return
	}
	var names func(string, int32) bool
	if m, ok := body.(*sarama.MetadataRequest); ok {
		names = func(t string, _ int32) bool {
			for _, x := range m.Topics {
				if x == t {
					return true
				}
			}
			return false
		}
	}
	if m, ok := body.(*sarama.OffsetRequest); ok {
		blocks := sarama.VerifOffsetRequestBlocks(m)
		names = func(t string, p int32) bool {
			for _, b := range blocks {
				if b.Topic == t && b.Partition == p {
					return true
				}
			}
			return false
		}
	}
	fault := cl.matchRule(api, br, names)
	if cl.onRequest != nil {
		cl.onRequest(c, h, body, fault)
	}
	if fault != nil {
		switch fault.Do {
		case "drop-before", "drop-after":
			cl.k.logf("b%d c%d %s -> fault %s", br.id, c.id, api, fault.Do)
			cl.noteFault(fault.Do)
			if fault.Do == "drop-after" {
				cl.discarding = true
				cl.dispatch(c, h, body, nil) // applied, response discarded
				cl.discarding = false
			}
			c.serverClose(false)
			return
		case "silence":
			cl.k.logf("b%d c%d %s -> fault silence", br.id, c.id, api)
			cl.noteFault("silence")
			if fault.Append {
				cl.discarding = true
				cl.dispatch(c, h, body, nil)
				cl.discarding = false
			}
			return // connection stays busy forever
		}
	}
	resp, delay, ok := cl.dispatch(c, h, body, fault)
	if !ok {
		return
	}
	if fault != nil {
		switch fault.Do {
		case "wrong-corr":
			resp = append([]byte(nil), resp...)
			resp[7] ^= byte(1 + fault.N%200)
			cl.noteFault("garbage-wrong-correlation-id")
			cl.k.logf("b%d c%d %s corr=%d -> response with wrong correlation id", br.id, c.id, api, h.corr)
			if cl.onGarbage != nil {
				cl.onGarbage(c, h, fault.Do)
			}
		case "oversize":
			resp = append([]byte(nil), resp...)
			resp[0], resp[1], resp[2], resp[3] = 0x7f, 0xff, 0xff, 0xff
			cl.noteFault("garbage-oversized-length")
			cl.k.logf("b%d c%d %s corr=%d -> response with oversized length", br.id, c.id, api, h.corr)
			if cl.onGarbage != nil {
				cl.onGarbage(c, h, fault.Do)
			}
		case "badlen":
			// a bare 8-byte header whose length field is invalid (too large, or too small to hold a
			// correlation id), after which the server carries on answering as if nothing had happened
			lens := []uint32{uint32(sarama.MaxResponseSize) + 1, 0x7fffffff, 4, 0, 0xffffffff, 3}
			l := lens[fault.N%len(lens)]
			resp = []byte{byte(l >> 24), byte(l >> 16), byte(l >> 8), byte(l), resp[4], resp[5], resp[6], resp[7]}
			cl.noteFault("garbage-bad-length-header-only")
			cl.k.logf("b%d c%d %s corr=%d -> bare header with length %d", br.id, c.id, api, h.corr, int32(l))
			if cl.onGarbage != nil {
				cl.onGarbage(c, h, fault.Do)
			}
		case "truncate", "short-header", "close":
			n := 0
			switch fault.Do {
			case "truncate":
				n = 8 + fault.N%max(1, len(resp)-8)
				if n >= len(resp) {
					n = len(resp) - 1
				}
			case "short-header":
				n = 1 + fault.N%7
			}
			cl.noteFault("garbage-" + fault.Do)
			cl.k.logf("b%d c%d %s corr=%d -> %s after %d bytes", br.id, c.id, api, h.corr, fault.Do, n)
			if cl.onGarbage != nil {
				cl.onGarbage(c, h, fault.Do)
			}
			part := resp[:n]
			at := time.Now().Add(cl.k.latency())
			if at.Before(c.lastDeliv) {
				at = c.lastDeliv
			}
			c.lastDeliv = at
			c.closing = true
			cl.k.after(time.Until(at), func() {
				if n > 0 {
					c.deliver(part)
				}
				c.serverClose(true)
			})
			return
		case "stall":
			// the broker stops reading: the socket buffer fills up and client writes block
			c.mu.Lock()
			c.stall = true
			c.mu.Unlock()
			cl.noteFault("stall")
			cl.k.logf("b%d c%d %s corr=%d -> broker stalls (no response, writes block)", br.id, c.id, api, h.corr)
			if cl.onGarbage != nil {
				cl.onGarbage(c, h, fault.Do)
			}
			return
		}
	}
	if fault != nil && fault.Do == "delay" {
		delay += time.Duration(fault.Us) * time.Microsecond
		cl.noteFault("delay")
	}
	cl.respond(c, resp, delay)
}

// dispatch applies one non-produce, non-fetch request to the model and returns the encoded response.
func (cl *cluster) dispatch(c *simConn, h reqHeader, body interface{}, fault *cf.Fault) ([]byte, time.Duration, bool) {
	br := c.br
	var resp interface{}
	switch r := body.(type) {
	case *sarama.MetadataRequest:
		resp = cl.metadata(br, c, h.corr, r, fault)
	case *sarama.InitProducerIDRequest:
		cl.pidNext++
		res := &sarama.InitProducerIDResponse{ProducerID: cl.pidNext, ProducerEpoch: 0}
		if fault != nil && fault.Do == "errcode" {
			res.Err = sarama.KError(fault.Code)
			cl.noteFault("errcode")
		}
		cl.k.logf("b%d c%d InitProducerId -> pid=%d err=%d", br.id, c.id, res.ProducerID, res.Err)
		resp = res
	case *sarama.ApiVersionsRequest:
		resp = &sarama.ApiVersionsResponse{}
	case *sarama.OffsetRequest:
		if cl.fetch == nil {
			panic("model: ListOffsets without fetch model")
		}
		resp = cl.fetch.listOffsets(br, r, fault)
	default:
		if cl.extra != nil {
			b, handled, noResp := cl.extra(br, c, h, body, fault)
			if handled {
				if noResp {
					return nil, 0, false
				}
				return b, 0, true
			}
		}
		panic(fmt.Sprintf("model: unhandled request %T", body))
	}
	out, err := sarama.VerifEncodeResponse(h.corr, resp)
	if err != nil {
		panic(fmt.Sprintf("model: encode %T: %v", resp, err))
	}
	return out, 0, true
}

// metadata builds the response for the current view.
func (cl *cluster) metadata(br *mbroker, c *simConn, corr int32, r *sarama.MetadataRequest, fault *cf.Fault) *sarama.MetadataResponse {
	m := &sarama.MetadataResponse{Version: r.Version, ControllerID: cl.controller}
	for _, id := range cl.order {
		b := cl.brokers[id]
		if b.up || b.blackhole {
			m.AddBroker(b.addr, b.id)
		}
	}
	var topics []string
	if len(r.Topics) == 0 {
		for _, t := range cl.sortedTopics() {
			topics = append(topics, t.name)
		}
	} else {
		topics = r.Topics
	}
	var desc []string
	for _, name := range topics {
		t := cl.topics[name]
		if t == nil {
			m.AddTopic(name, sarama.ErrUnknownTopicOrPartition)
			desc = append(desc, name+":unknown")
			continue
		}
		if fault != nil && fault.Do == "errcode" && (fault.Topic == "" || fault.Topic == name) {
			m.AddTopic(name, sarama.KError(fault.Code))
			cl.noteFault("meta-errcode")
			desc = append(desc, fmt.Sprintf("%s:err%d", name, fault.Code))
			continue
		}
		if t.err != 0 {
			if len(r.Topics) == 0 && (t.err == 3 || t.err == 17) {
				continue // a full listing does not name topics that do not exist / are invalid
			}
			m.AddTopic(name, sarama.KError(t.err))
			continue
		}
		m.AddTopic(name, sarama.ErrNoError)
		for _, p := range t.parts {
			kerr := sarama.ErrNoError
			if p.leader < 0 {
				kerr = sarama.ErrLeaderNotAvailable
			}
			var offline []int32
			for _, rep := range p.replicas {
				if b := cl.brokers[rep]; b == nil || !b.up {
					offline = append(offline, rep)
				}
			}
			m.AddTopicPartition(name, p.id, p.leader, p.replicas, p.isr, offline, kerr)
			desc = append(desc, fmt.Sprintf("%s@%d", p.key(), p.leader))
		}
	}
	cl.k.logf("b%d Metadata v%d view=%d %s", br.id, r.Version, cl.view, strings.Join(desc, " "))
	if cl.onMetadata != nil {
		cl.onMetadata(br, c, corr, r, m)
	}
	return m
}

// ---- produce ----

func encodeProduceResponse(ver int16, order []producePart, blocks map[string]*prodBlock) []byte {
	var w wr
	// group by topic in request order
	var topics []string
	byTopic := map[string][]producePart{}
	for _, p := range order {
		if blocks[fmt.Sprintf("%s/%d", p.topic, p.partition)] == nil {
			continue
		}
		if _, ok := byTopic[p.topic]; !ok {
			topics = append(topics, p.topic)
		}
		byTopic[p.topic] = append(byTopic[p.topic], p)
	}
	w.i32(int32(len(topics)))
	for _, t := range topics {
		w.str(t)
		w.i32(int32(len(byTopic[t])))
		for _, p := range byTopic[t] {
			b := blocks[fmt.Sprintf("%s/%d", p.topic, p.partition)]
			w.i32(p.partition)
			w.i16(b.err)
			w.i64(b.base)
			if ver >= 2 {
				w.i64(-1) // log append time (CreateTime topics)
			}
			if ver >= 5 {
				w.i64(b.logStart)
			}
		}
	}
	if ver >= 1 {
		w.i32(0)
	}
	return w.b
}

type prodBlock struct {
	err      int16
	base     int64
	logStart int64
}

func (cl *cluster) handleProduce(c *simConn, h reqHeader, frameLen int) {
	br := c.br
	pr, err := decodeProduce(h.ver, h.body)
	if err != nil {
		R.violate("C04.broker-rejects-bytes", "produce v%d request does not parse: %v", h.ver, err)
		c.serverClose(true)
		return
	}
	names := func(t string, p int32) bool {
		for _, x := range pr.parts {
			if x.topic == t && x.partition == p {
				return true
			}
		}
		return false
	}
	fault := cl.matchRule("Produce", br, names)
	sets := map[string][]wbatch{}
	rejected := map[string]string{}
	for _, p := range pr.parts {
		key := fmt.Sprintf("%s/%d", p.topic, p.partition)
		bs, err := decodeRecordSet(p.data)
		if err != nil {
			rejected[key] = err.Error()
			R.violate("C04.broker-rejects-bytes", "produce v%d %s: record set rejected: %v", h.ver, key, err)
			continue
		}
		sets[key] = bs
	}
	if cl.onProduce != nil {
		cl.onProduce(br, c, h.ver, frameLen, pr, sets)
	}
	fdo := ""
	if fault != nil {
		fdo = fault.Do
	}
	if fdo == "drop-before" {
		cl.k.logf("b%d c%d Produce corr=%d -> fault drop-before", br.id, c.id, h.corr)
		cl.noteFault("drop-before")
		c.serverClose(false)
		return
	}
	if fdo == "silence" && !fault.Append {
		cl.k.logf("b%d c%d Produce corr=%d -> fault silence(no append)", br.id, c.id, h.corr)
		cl.noteFault("silence")
		return
	}
	blocks := map[string]*prodBlock{}
	var desc []string
	for _, p := range pr.parts {
		key := fmt.Sprintf("%s/%d", p.topic, p.partition)
		blk := &prodBlock{base: -1}
		blocks[key] = blk
		mp := cl.part(p.topic, p.partition)
		faultHere := fault != nil && (fault.AllParts || (fault.Topic == p.topic && fault.Partition == p.partition))
		switch {
		case mp == nil:
			blk.err = int16(sarama.ErrUnknownTopicOrPartition)
		case mp.leader != br.id:
			blk.err = int16(sarama.ErrNotLeaderForPartition)
		case rejected[key] != "":
			blk.err = int16(sarama.ErrInvalidMessage)
		case fdo == "errcode" && faultHere && !fault.Append:
			blk.err = int16(fault.Code)
			cl.noteFault("errcode")
			if fault.Arg == "election" && fault.Us > 0 && mp.leader >= 0 {
				// the error announces an election: the partition has no leader for a while, then a (possibly
				// different) broker takes over
				old, to := mp.leader, fault.To
				if cl.brokers[to] == nil {
					to = old
				}
				mp.leader = -1
				cl.noteFault("election-window")
				cl.k.logf("view election %s: leaderless for %d us, then b%d", mp.key(), fault.Us, to)
				cl.bumpView()
				part := mp
				cl.k.after(time.Duration(fault.Us)*time.Microsecond, func() {
					if part.leader == -1 {
						if cl.brokers[to] == nil {
							return
						}
						part.leader = to
						cl.k.logf("view election over %s -> b%d", part.key(), to)
						cl.bumpView()
					}
				})
			}
		default:
			kerr, base := cl.appendBatches(mp, sets[key], pr, c, fdo)
			blk.err, blk.base, blk.logStart = kerr, base, mp.logStart
			if fdo == "errcode" && faultHere && fault.Append && kerr == 0 {
				blk.err = int16(fault.Code)
				blk.base = -1
				cl.noteFault("errcode-after-append")
			}
		}
		if fdo == "missing-block" && faultHere {
			delete(blocks, key)
			cl.noteFault("incomplete-response")
			desc = append(desc, key+":MISSING")
			continue
		}
		switch {
		case blk.err == 0:
			delete(cl.retryPending, key)
		case blk.err == 6 || blk.err == 5 || blk.err == 3 || blk.err == 7 || blk.err == 19 || blk.err == 20 || blk.err == 2:
			cl.retryPending[key] = true
		}
		desc = append(desc, fmt.Sprintf("%s:err%d@%d", key, blk.err, blk.base))
	}
	cl.k.logf("b%d c%d Produce v%d corr=%d acks=%d %s fault=%s", br.id, c.id, h.ver, h.corr, pr.acks, strings.Join(desc, " "), fdo)
	if fdo == "drop-after" {
		cl.noteFault("drop-after")
		c.serverClose(false)
		return
	}
	if fdo == "silence" {
		cl.noteFault("silence")
		return
	}
	if pr.acks == 0 {
		cl.done(c)
		return
	}
	var delay time.Duration
	if fdo == "delay" {
		delay = time.Duration(fault.Us) * time.Microsecond
		cl.noteFault("delay")
	}
	if fdo == "errcode" && fault.SlowUs > 0 {
		delay = time.Duration(fault.SlowUs) * time.Microsecond
		cl.noteFault("slow-error-response")
	}
	cl.respond(c, respHeader(h.corr, encodeProduceResponse(h.ver, pr.parts, blocks)), delay)
}

// appendBatches validates idempotence state and appends; returns (kafka error, base offset).
func (cl *cluster) appendBatches(mp *mpart, bs []wbatch, pr *produceReq, c *simConn, fdo string) (int16, int64) {
	base := int64(-1)
	for i := range bs {
		wb := bs[i]
		n := len(wb.recs)
		if n == 0 {
			// an empty batch: real brokers reject it
			return int16(sarama.ErrInvalidMessage), -1
		}
		if wb.magic == 2 && wb.pid >= 0 {
			st := mp.idem[wb.pid]
			first, last := wb.baseSeq, wb.baseSeq+int32(n)-1
			if st == nil || wb.epoch > st.epoch {
				if wb.baseSeq != 0 && st != nil {
					return int16(sarama.ErrOutOfOrderSequenceNumber), -1
				}
				if st == nil && wb.baseSeq != 0 {
					return int16(sarama.ErrOutOfOrderSequenceNumber), -1 // UNKNOWN_PRODUCER_ID in newer brokers
				}
				st = &idemState{epoch: wb.epoch, lastSeq: -1}
				mp.idem[wb.pid] = st
			} else if wb.epoch < st.epoch {
				return int16(sarama.ErrInvalidProducerEpoch), -1
			}
			dup := false
			for _, e := range st.cache {
				if int64(first) == e[0] && int64(last) == e[1] {
					R.probe("idempotent-duplicate-deduplicated")
					if base < 0 {
						base = e[2]
					}
					dup = true
				}
			}
			if dup {
				continue
			}
			if len(st.cache) > 0 && int64(last) < st.cache[0][0] {
				// entirely older than the cached batches: Kafka >= 1.0 answers DUPLICATE_SEQUENCE_NUMBER
				return int16(sarama.ErrDuplicateSequenceNumber), -1
			}
			if first != st.lastSeq+1 {
				return int16(sarama.ErrOutOfOrderSequenceNumber), -1
			}
			st.lastSeq = last
			st.cache = append(st.cache, [3]int64{int64(first), int64(last), mp.leo})
			if len(st.cache) > 5 {
				st.cache = st.cache[1:]
			}
		}
		b := cl.appendOne(mp, wb, c, fdo)
		if base < 0 {
			base = b.first
		}
		if cl.onAppend != nil {
			cl.onAppend(mp, b, pr)
		}
	}
	return 0, base
}

func (cl *cluster) appendOne(mp *mpart, wb wbatch, c *simConn, fdo string) *mbatch {
	b := &mbatch{wb: wb, first: mp.leo, atUs: cl.k.nowUs(), reqNo: cl.reqNo, faulted: fdo}
	if c != nil {
		b.connID = c.id
	}
	b.wb.baseOffset = mp.leo
	for i := range b.wb.recs {
		w := &b.wb.recs[i]
		w.delta = int64(i)
		r := &mrec{offset: mp.leo + int64(i), key: w.key, val: w.val, headers: w.headers, tsMs: w.tsMs, batch: b}
		b.recs = append(b.recs, r)
	}
	b.wb.lastDelta = int32(len(b.recs) - 1)
	b.last = mp.leo + int64(len(b.recs)) - 1
	mp.leo = b.last + 1
	mp.batches = append(mp.batches, b)
	return b
}

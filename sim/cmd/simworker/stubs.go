package main

import "simverif/cf"

type groupModel struct{}

func (g *groupModel) timedFault(f *cf.Fault) bool { return false }

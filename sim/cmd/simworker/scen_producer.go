package main

import (
	"bytes"
	"fmt"
	"hash"
	"hash/fnv"
	"runtime"
	"sort"
	"strconv"
	"strings"
	"sync"
	"time"

	"github.com/Shopify/sarama"

	"simverif/cf"
)

// msgInfo is the oracle's record of one submitted message (attached via Metadata).
type msgInfo struct {
	op        *cf.Op
	id        int
	actor     int
	seq       int // per-actor submission index
	key, val  []byte
	headers   []hdr
	ts        time.Time
	submitted bool
	submitUs  int64
	submitE   uint64
	events    []pevent
	trail     []int // interceptor indices applied
	pcalls    []pcall
	wireUs    int64 // first time seen on the wire (-1 never)
	wireCount int
	seqs      []seqStamp // (epoch, seq) under which the message was seen on the wire
	msg       *sarama.ProducerMessage
	syncRet   int
}

type seqStamp struct {
	pid   int64
	epoch int16
	seq   int32
}

type pevent struct {
	ok        bool
	err       error
	partition int32
	offset    int64
	e         uint64
	us        int64
	afterClose bool
}

type pcall struct {
	n      int32
	choice int32
	err    error
	consistent bool
	view   int
}

func msgValue(id int, n int) []byte {
	p := "m" + strconv.Itoa(id) + "|"
	if n < len(p) {
		n = len(p)
	}
	return pad(p, n)
}

// idOfRec identifies the submitted message a record belongs to: by its value, or - for a tombstone - by its key.
func idOfRec(key, val []byte) int {
	if len(val) == 0 && len(key) >= 3 && key[0] == 'T' {
		if i := bytes.IndexByte(key, '|'); i > 1 {
			if n, err := strconv.Atoi(string(key[1:i])); err == nil {
				return n
			}
		}
	}
	return idOfValue(val)
}

func idOfValue(v []byte) int {
	if len(v) < 3 || v[0] != 'm' {
		return -1
	}
	i := bytes.IndexByte(v, '|')
	if i < 0 {
		return -1
	}
	n, err := strconv.Atoi(string(v[1:i]))
	if err != nil {
		return -1
	}
	return n
}

// ---- partitioner wrapper (C17) ----

type oraclePartitioner struct {
	inner sarama.Partitioner
	ps    *prodScen
	topic string
	kind  string
}

func (o *oraclePartitioner) RequiresConsistency() bool { return o.inner.RequiresConsistency() }
func (o *oraclePartitioner) MessageRequiresConsistency(m *sarama.ProducerMessage) bool {
	if d, ok := o.inner.(sarama.DynamicConsistencyPartitioner); ok {
		return d.MessageRequiresConsistency(m)
	}
	return o.inner.RequiresConsistency()
}
func (o *oraclePartitioner) Partition(m *sarama.ProducerMessage, n int32) (int32, error) {
	choice, err := o.inner.Partition(m, n)
	if mi, ok := m.Metadata.(*msgInfo); ok {
		mi.pcalls = append(mi.pcalls, pcall{n: n, choice: choice, err: err, consistent: o.mustBeConsistent(m), view: o.ps.cl.view})
	}
	o.ps.checkPartitionerContract(o, m, n, choice, err)
	return choice, err
}

// mustBeConsistent: what the contract says, not what the partitioner under test answers - keyed messages (any
// non-nil key, the empty one included) of the hash partitioners and every message of the manual partitioner are
// offered all partitions; round-robin and random only writable ones.
func (o *oraclePartitioner) mustBeConsistent(m *sarama.ProducerMessage) bool {
	switch o.kind {
	case "hash", "", "refhash", "customhash", "custom-absfirst", "custom-hashfn", "custom-fallback", "customhash-slow", "custom-hashfn-slow":
		return m.Key != nil
	case "manual":
		return true
	case "roundrobin", "random":
		return false
	}
	return o.MessageRequiresConsistency(m)
}

// badPartitioner returns out-of-range values or errors on designated messages.
type badPartitioner struct{ inner sarama.Partitioner }

func (b *badPartitioner) RequiresConsistency() bool { return false }
func (b *badPartitioner) Partition(m *sarama.ProducerMessage, n int32) (int32, error) {
	if mi, ok := m.Metadata.(*msgInfo); ok {
		switch mi.id % 7 {
		case 1:
			return n, nil
		case 3:
			return -1, nil
		case 5:
			return 0, fmt.Errorf("partitioner refuses m%d", mi.id)
		}
	}
	return b.inner.Partition(m, n)
}

// slowFnv is an application-supplied hasher that gives up the processor inside Write (an application's hasher may
// block or yield): whatever the library does between Reset, Write and Sum32 of one hasher value becomes a scheduling
// point, so two topics' partitioners sharing hasher state are found out.
type slowFnv struct{ hash.Hash32 }

func (h slowFnv) Write(p []byte) (int, error) {
	runtime.Gosched()
	n, err := h.Hash32.Write(p)
	runtime.Gosched()
	return n, err
}

func newSlowFnv() hash.Hash32 { return slowFnv{fnv.New32()} }

func partitionerCtor(name string) sarama.PartitionerConstructor {
	switch name {
	case "manual":
		return sarama.NewManualPartitioner
	case "random":
		return sarama.NewRandomPartitioner
	case "roundrobin":
		return sarama.NewRoundRobinPartitioner
	case "hash", "":
		return sarama.NewHashPartitioner
	case "refhash":
		return sarama.NewReferenceHashPartitioner
	case "customhash":
		return sarama.NewCustomHashPartitioner(fnv.New32)
	case "custom-absfirst":
		return sarama.NewCustomPartitioner(sarama.WithAbsFirst())
	case "custom-hashfn":
		return sarama.NewCustomPartitioner(sarama.WithCustomHashFunction(fnv.New32))
	case "customhash-slow":
		return sarama.NewCustomHashPartitioner(newSlowFnv)
	case "custom-hashfn-slow":
		return sarama.NewCustomPartitioner(sarama.WithCustomHashFunction(newSlowFnv))
	case "custom-fallback":
		return sarama.VerifCustomFallbackPartitioner
	case "bad":
		return func(t string) sarama.Partitioner { return &badPartitioner{inner: sarama.NewRoundRobinPartitioner(t)} }
	}
	panic("partitioner " + name)
}

// ---- interceptors (C18) ----

type trailInterceptor struct {
	idx   int
	panics bool
	ps    *prodScen
}

func (t *trailInterceptor) OnSend(m *sarama.ProducerMessage) {
	mi, ok := m.Metadata.(*msgInfo)
	if !ok || mi == nil {
		R.violate("C18.foreign-intercepted", "producer interceptor %d invoked for a message the application did not submit (topic=%q partition=%d value=%v)", t.idx, m.Topic, m.Partition, m.Value)
		return
	}
	mi.trail = append(mi.trail, t.idx)
	if t.ps.v2 {
		m.Headers = append(m.Headers, sarama.RecordHeader{Key: []byte("icpt"), Value: []byte(strconv.Itoa(t.idx))})
	}
	if t.panics {
		panic(fmt.Sprintf("interceptor %d panics", t.idx))
	}
}

// ---- scenario ----

type prodScen struct {
	r    *run
	c    *cf.Case
	cl   *cluster
	cfg  *sarama.Config
	v2   bool
	mu   sync.Mutex
	msgs map[int]*msgInfo
	byPtr map[*sarama.ProducerMessage]*msgInfo
	closeRequested bool
	closeReturned  bool
	succClosed, errClosed bool
	closeUs int64
	lastSubmitUs int64
	// C05 wire state per pid/epoch/partition
	wire map[string]*wireSeq
	// C17 contract state
	hashSeen map[string]int32
	rrLast   map[string]int32
	views    []viewLists
	pending  int
	produceReqs int
	handle  interface{} // the producer under test (for the epoch observation)
	reusable []*sarama.ProducerMessage // message objects returned on Successes() that the application may recycle
	epoch0  int
}

type wireSeq struct {
	next   int32
	ranges map[int32]string // firstSeq -> descriptor of (last, ids)
}

type viewLists struct {
	view int
	all, writable map[string][]int32
}

func scenProducer(r *run) {
	c := r.c
	k := r.k
	cl := newCluster(k, c)
	ps := &prodScen{r: r, c: c, cl: cl, msgs: map[int]*msgInfo{}, byPtr: map[*sarama.ProducerMessage]*msgInfo{}, wire: map[string]*wireSeq{}, hashSeen: map[string]int32{}, rrLast: map[string]int32{}}
	cfg := baseConfig(c, cl)
	ps.cfg = cfg
	ps.v2 = cfg.Version.IsAtLeast(sarama.V0_11_0_0)
	cfg.Producer.Return.Successes = true
	cfg.Producer.Return.Errors = true
	cfg.Producer.Retry.Max = c.Config.RetryMax
	cfg.Producer.Retry.Backoff = ms(c.Config.BackoffMs)
	cfg.Producer.Flush.Messages = c.Config.Flush.Messages
	cfg.Producer.Flush.Bytes = c.Config.Flush.Bytes
	cfg.Producer.Flush.Frequency = ms(c.Config.Flush.FreqMs)
	cfg.Producer.Flush.MaxMessages = c.Config.Flush.MaxMessages
	if c.Config.MaxMessageBytes > 0 {
		cfg.Producer.MaxMessageBytes = c.Config.MaxMessageBytes
	}
	cfg.Producer.RequiredAcks = sarama.RequiredAcks(c.Config.Acks)
	cfg.Producer.Compression = codecOf(c.Config.Codec)
	if c.Config.CodecLevel != 0 {
		cfg.Producer.CompressionLevel = c.Config.CodecLevel
	}
	if c.Config.Idempotent {
		cfg.Producer.Idempotent = true
		cfg.Producer.RequiredAcks = sarama.WaitForAll
		cfg.Net.MaxOpenRequests = 1
	}
	ctor := partitionerCtor(c.Config.Partitioner)
	cfg.Producer.Partitioner = func(topic string) sarama.Partitioner {
		return &oraclePartitioner{inner: ctor(topic), ps: ps, topic: topic, kind: c.Config.Partitioner}
	}
	for i := 0; i < c.Config.Interceptors; i++ {
		cfg.Producer.Interceptors = append(cfg.Producer.Interceptors, &trailInterceptor{idx: i, panics: c.Config.PanicIcpt == i+1, ps: ps})
	}
	if err := cfg.Validate(); err != nil {
		r.finish("infra", "generated config invalid: "+err.Error())
	}
	cl.onProduce = ps.onProduce
	r.classify = ps.historyClass
	r.extraClass = func() string {
		// the idempotent producer rolled its epoch over (and reset every sequence counter) before this moment
		var t []string
		if ps.handle != nil && ps.c.Config.Idempotent && sarama.VerifProducerEpoch(ps.handle) > ps.epoch0 {
			t = append(t, "after-epoch-bump")
		}
		if notConnectedLogged {
			// a broker worker shut down on ErrNotConnected before this moment (the Broker.Open race)
			t = append(t, "after-broker-not-connected")
		}
		return strings.Join(t, ",")
	}
	r.finalClass = func(v *cf.Violation) {
		// the epoch bump precedes the delivery of the error event that causes it: for the idempotent
		// producer the fact 'some message got an error outcome in this run' is added once the run is over
		if !ps.c.Config.Idempotent || strings.Contains(v.Class, "error-outcome-in-run") {
			return
		}
		for _, mi := range ps.msgs {
			for _, ev := range mi.events {
				if !ev.ok {
					if v.Class != "" {
						v.Class += ","
					}
					v.Class += "error-outcome-in-run"
					return
				}
			}
		}
	}
	cl.onView = ps.recordView
	ps.recordView()

	watchdog(r, ps.onHang)

	// index ops
	byActor := map[int][]*cf.Op{}
	var actors []int
	closeThink := int64(0)
	for i := range c.Workload {
		op := &c.Workload[i]
		switch op.Op {
		case "send":
			if _, ok := byActor[op.Actor]; !ok {
				actors = append(actors, op.Actor)
			}
			byActor[op.Actor] = append(byActor[op.Actor], op)
		case "close":
			closeThink = op.ThinkUs
		}
	}
	sort.Ints(actors)
	r.res.Ops = len(c.Workload)

	if c.Config.Sync {
		ps.runSync(actors, byActor, closeThink)
	} else {
		ps.runAsync(actors, byActor, closeThink)
	}
	ps.judge()
	// drain period: Client.Close finishes asynchronously by design
	time.Sleep(cfg.Net.DialTimeout + cfg.Net.ReadTimeout + time.Second)
	close(r.stopWatch)
	k.halt()
}

func (ps *prodScen) newMessage(op *cf.Op, seq int) (*sarama.ProducerMessage, *msgInfo) {
	mi := &msgInfo{op: op, id: op.ID, actor: op.Actor, seq: seq, wireUs: -1}
	mi.val = msgValue(op.ID, op.ValLen)
	if op.KeyLen >= 0 {
		mi.key = pad("k"+strconv.Itoa(op.KeyID), op.KeyLen)
		if op.KeyLen == 0 {
			mi.key = []byte{}
		}
	}
	m := &sarama.ProducerMessage{Topic: op.Topic, Partition: op.Partition, Metadata: mi}
	if op.Arg == "reuse" {
		// the application recycles a message object it got back on Successes() (every field is set afresh)
		ps.mu.Lock()
		if n := len(ps.reusable); n > 0 {
			old := ps.reusable[n-1]
			ps.reusable = ps.reusable[:n-1]
			delete(ps.byPtr, old)
			old.Topic, old.Partition, old.Metadata = op.Topic, op.Partition, mi
			old.Key, old.Value, old.Headers, old.Timestamp, old.Offset = nil, nil, nil, time.Time{}, 0
			m = old
			ps.r.probe("message-object-reused")
		}
		ps.mu.Unlock()
	}
	if op.ValLen == -2 {
		// a tombstone: no value at all; the message is identified by its key instead
		mi.val = nil
		mi.key = []byte("T" + strconv.Itoa(op.ID) + "|")
	} else {
		m.Value = sarama.ByteEncoder(mi.val)
	}
	if mi.key != nil {
		m.Key = sarama.ByteEncoder(mi.key)
	}
	for h := 0; h < op.Headers; h++ {
		hk, hv := []byte(fmt.Sprintf("h%d", h)), []byte(fmt.Sprintf("v%d-%d", op.ID, h))
		if h == 1 {
			hv = nil
		}
		m.Headers = append(m.Headers, sarama.RecordHeader{Key: hk, Value: hv})
		mi.headers = append(mi.headers, hdr{hk, hv})
	}
	if op.TsMs > 0 {
		mi.ts = epoch.Add(time.Duration(op.TsMs) * time.Millisecond)
		m.Timestamp = mi.ts
	}
	mi.msg = m
	ps.mu.Lock()
	ps.msgs[op.ID] = mi
	ps.byPtr[m] = mi
	ps.mu.Unlock()
	return m, mi
}

func (ps *prodScen) runAsync(actors []int, byActor map[int][]*cf.Op, closeThink int64) {
	k := ps.r.k
	p, err := sarama.NewAsyncProducer(ps.cl.seedAddrs(), ps.cfg)
	if err != nil {
		k.logf("NewAsyncProducer failed: %v", err)
		return
	}
	ps.handle, ps.epoch0 = p, sarama.VerifProducerEpoch(p)
	collected := make(chan struct{})
	stopCollect := make(chan struct{})
	collector := func() {
		defer close(collected)
		succ, errs := p.Successes(), p.Errors()
		for succ != nil || errs != nil {
			select {
			case <-stopCollect:
				return
			case m, ok := <-succ:
				if !ok {
					succ = nil
					ps.succClosed = true
					k.logf("successes closed")
					continue
				}
				ps.onEvent(m, nil)
			case e, ok := <-errs:
				if !ok {
					errs = nil
					ps.errClosed = true
					k.logf("errors closed")
					continue
				}
				ps.onEvent(e.Msg, e.Err)
			}
		}
	}
	go collector()
	var wg sync.WaitGroup
	for _, a := range actors {
		ops := byActor[a]
		wg.Add(1)
		go func() {
			defer wg.Done()
			for i, op := range ops {
				if op.ThinkUs > 0 {
					ps.r.nap(time.Duration(op.ThinkUs) * time.Microsecond)
				}
				if ps.r.closing() {
					return // the application stops submitting before it shuts the producer down
				}
				m, mi := ps.newMessage(op, i)
				mi.submitUs = k.nowUs()
				mi.submitE = k.stamp()
				if ps.cl.retryPending[fmt.Sprintf("%s/%d", op.Topic, op.Partition)] {
					ps.r.probe("fresh-input-while-partition-retrying")
				}
				k.logf("submit m%d a%d %s/%d", mi.id, mi.actor, op.Topic, op.Partition)
				p.Input() <- m
				mi.submitted = true
				ps.lastSubmitUs = k.nowUs()
			}
		}()
	}
	wg.Wait()
	if closeThink > 0 {
		ps.r.nap(time.Duration(closeThink) * time.Microsecond)
	}
	ps.checkHeldBuffers()
	ps.closeRequested = true
	ps.closeUs = k.nowUs()
	if ps.c.Config.CloseMode == "close" {
		// Close() drains both channels itself; a second reader would steal its events
		close(stopCollect)
		<-collected
		k.logf("Close()")
		cerr := p.Close()
		ps.closeReturned = true
		if pe, ok := cerr.(sarama.ProducerErrors); ok {
			for _, e := range pe {
				ps.onEvent(e.Msg, e.Err)
			}
		}
		k.logf("Close returned")
		ps.succClosed, ps.errClosed = true, true
	} else {
		k.logf("AsyncClose()")
		p.AsyncClose()
		<-collected
	}
	ps.closeReturned = true
}

func (ps *prodScen) runSync(actors []int, byActor map[int][]*cf.Op, closeThink int64) {
	k := ps.r.k
	p, err := sarama.NewSyncProducer(ps.cl.seedAddrs(), ps.cfg)
	if err != nil {
		k.logf("NewSyncProducer failed: %v", err)
		return
	}
	ps.handle, ps.epoch0 = p, sarama.VerifProducerEpoch(p)
	var wg sync.WaitGroup
	// C12: at the close point the producer is closed while callers may still be waiting for the outcome of messages
	// they have handed over (never while one is about to hand a message over: sending on a closing producer's
	// input is the application's fault). inCall[a] lists the messages of actor a's current call.
	var callMu sync.Mutex
	inCall := map[int][]*msgInfo{}
	enter := func(a int, mis []*msgInfo) bool {
		callMu.Lock()
		defer callMu.Unlock()
		if ps.closeRequested || ps.r.closing() {
			return false
		}
		inCall[a] = mis
		return true
	}
	leave := func(a int) {
		callMu.Lock()
		delete(inCall, a)
		callMu.Unlock()
	}
	earlyClosed := make(chan struct{})
	if ps.c.CloseAt != nil {
		go func() {
			select {
			case <-ps.r.closeNow:
			case <-earlyClosed:
				return
			}
			// wait (a little) until every message of every call in progress has reached a broker, i.e. is past Input()
			for i := 0; i < 200; i++ {
				callMu.Lock()
				pending := false
				for _, mis := range inCall {
					for _, mi := range mis {
						if mi.wireUs < 0 && len(mi.events) == 0 {
							pending = true
						}
					}
				}
				busy := len(inCall) > 0
				callMu.Unlock()
				if !pending {
					if !busy {
						return // nobody is waiting: the ordinary path closes the producer
					}
					break
				}
				time.Sleep(250 * time.Microsecond)
				if i == 199 {
					return
				}
			}
			callMu.Lock()
			if ps.closeRequested {
				callMu.Unlock()
				return
			}
			ps.closeRequested = true
			callMu.Unlock()
			ps.r.probe("sync-producer-closed-while-callers-wait")
			k.logf("Close() (close point, SendMessage callers waiting)")
			_ = p.Close()
			ps.closeReturned = true
			k.logf("Close returned")
			close(earlyClosed)
		}()
	}
	for _, a := range actors {
		ops := byActor[a]
		wg.Add(1)
		go func() {
			defer wg.Done()
			for i := 0; i < len(ops); {
				op := ops[i]
				if op.ThinkUs > 0 {
					ps.r.nap(time.Duration(op.ThinkUs) * time.Microsecond)
				}
				if ps.r.closing() {
					return
				}
				n := op.N // batch size for SendMessages (0/1 = SendMessage)
				if n <= 1 {
					m, mi := ps.newMessage(op, i)
					if !enter(a, []*msgInfo{mi}) {
						return
					}
					defer leave(a)
					mi.submitUs, mi.submitE, mi.submitted = k.nowUs(), k.stamp(), true
					k.logf("SendMessage m%d", mi.id)
					part, off, err := p.SendMessage(m)
					leave(a)
					mi.syncRet++
					ev := pevent{ok: err == nil, err: err, partition: part, offset: off, e: k.stamp(), us: k.nowUs()}
					mi.events = append(mi.events, ev)
					k.logf("SendMessage m%d -> p%d@%d err=%v", mi.id, part, off, err)
					i++
					continue
				}
				if i+n > len(ops) {
					n = len(ops) - i
				}
				var batch []*sarama.ProducerMessage
				var infos []*msgInfo
				for j := 0; j < n; j++ {
					m, mi := ps.newMessage(ops[i+j], i+j)
					mi.submitUs, mi.submitE, mi.submitted = k.nowUs(), k.stamp(), true
					batch = append(batch, m)
					infos = append(infos, mi)
				}
				if !enter(a, infos) {
					return
				}
				k.logf("SendMessages x%d first m%d", n, infos[0].id)
				err := p.SendMessages(batch)
				leave(a)
				failed := map[*sarama.ProducerMessage]error{}
				if pe, ok := err.(sarama.ProducerErrors); ok {
					for _, e := range pe {
						if _, dup := failed[e.Msg]; dup {
							ps.r.violate("C01.double-outcome", "SendMessages reported message m%v twice", infoID(e.Msg))
						}
						failed[e.Msg] = e.Err
						if _, mine := ps.byPtr[e.Msg]; !mine {
							ps.r.violate("C01.foreign-event", "SendMessages returned an error for a message that was not in the call")
						}
					}
				} else if err != nil {
					for _, m := range batch {
						failed[m] = err
					}
				}
				for j, mi := range infos {
					mi.syncRet++
					e, bad := failed[batch[j]]
					mi.events = append(mi.events, pevent{ok: !bad, err: e, partition: batch[j].Partition, offset: batch[j].Offset, e: k.stamp(), us: k.nowUs()})
				}
				k.logf("SendMessages -> %d failed", len(failed))
				i += n
			}
		}()
	}
	wg.Wait()
	callMu.Lock()
	early := ps.closeRequested
	callMu.Unlock()
	if early {
		<-earlyClosed
		ps.succClosed, ps.errClosed = true, true
		return
	}
	if closeThink > 0 {
		ps.r.nap(time.Duration(closeThink) * time.Microsecond)
	}
	callMu.Lock()
	early = ps.closeRequested
	ps.closeRequested = true
	callMu.Unlock()
	if early {
		<-earlyClosed
		ps.succClosed, ps.errClosed = true, true
		return
	}
	k.logf("Close()")
	_ = p.Close()
	ps.closeReturned = true
	ps.succClosed, ps.errClosed = true, true
	k.logf("Close returned")
	if ps.c.CloseAt != nil {
		close(earlyClosed)
	}
}

func infoID(m *sarama.ProducerMessage) interface{} {
	if mi, ok := m.Metadata.(*msgInfo); ok {
		return mi.id
	}
	return "?"
}

func (ps *prodScen) onEvent(m *sarama.ProducerMessage, err error) {
	k := ps.r.k
	evPartition, evOffset := m.Partition, m.Offset // read before the object may be recycled by a submitting goroutine
	ps.mu.Lock()
	mi := ps.byPtr[m]
	if mi != nil && err == nil && len(ps.reusable) < 4 {
		ps.reusable = append(ps.reusable, m) // (inside the existing critical section: no extra scheduling point)
	}
	ps.mu.Unlock()
	if mi == nil {
		ps.r.violate("C01.foreign-event", "event (err=%v) for a message the application did not submit: topic=%q partition=%d flags/metadata=%v", err, m.Topic, m.Partition, m.Metadata)
		return
	}
	ev := pevent{ok: err == nil, err: err, partition: evPartition, offset: evOffset, e: k.stamp(), us: k.nowUs()}
	mi.events = append(mi.events, ev)
	if err == nil {
		k.logf("SUCC m%d p%d@%d", mi.id, evPartition, evOffset)
	} else {
		k.logf("ERR m%d %v", mi.id, err)
	}
	if len(mi.events) > 1 {
		ps.r.violate("C01.double-outcome", "message m%d received %d terminal events: %s", mi.id, len(mi.events), fmtEvents(mi.events))
	}
}

func fmtEvents(evs []pevent) string {
	var s []string
	for _, e := range evs {
		if e.ok {
			s = append(s, fmt.Sprintf("success p%d@%d", e.partition, e.offset))
		} else {
			s = append(s, fmt.Sprintf("error %v", e.err))
		}
	}
	return strings.Join(s, "; ")
}

func (ps *prodScen) sortedMsgs() []*msgInfo {
	var out []*msgInfo
	for _, m := range ps.msgs {
		out = append(out, m)
	}
	sort.Slice(out, func(i, j int) bool { return out[i].id < out[j].id })
	return out
}

func (ps *prodScen) onHang(dump string) {
	var lost []string
	for _, mi := range ps.sortedMsgs() {
		if mi.submitted && len(mi.events) == 0 {
			lost = append(lost, fmt.Sprintf("m%d", mi.id))
		}
	}
	frames := blockedSaramaFrames(dump)
	blockedInput := false
	for _, mi := range ps.sortedMsgs() {
		if !mi.submitted {
			blockedInput = true
		}
	}
	switch {
	case ps.closeRequested && ps.c.Config.CloseMode == "close" && !ps.c.Config.Sync:
		cls := strings.Replace(ps.classifyLoss(), ",never-on-wire", "", 1)
		ps.r.violateClass("C01.close-hang", cls, "Close() did not return within the liveness bound (%d ms fake time); parked: %v", ps.c.MaxSimMs, frames)
	case len(lost) > 0 && ps.closeRequested:
		ps.r.violateClass("C01.lost-outcome", ps.classifyLoss(), "no terminal event for %v within the liveness bound (%d ms fake time after faults stopped); shutdown cannot complete; parked: %v", lost, ps.c.MaxSimMs, frames)
	case blockedInput:
		ps.r.violate("C01.lost-outcome", "producer stopped accepting input: a feeder is blocked on Input() for ever; unanswered so far %v; parked: %v", lost, frames)
	case ps.closeRequested && !ps.closeReturned:
		ps.r.violate("C01.close-hang", "Close/AsyncClose did not complete although every message has an outcome; parked: %v", frames)
	default:
		ps.r.violate(propRule("hang"), "run did not finish within %d ms of fake time; parked: %v", ps.c.MaxSimMs, frames)
	}
	if ps.closeRequested && !ps.closeReturned {
		ps.r.violate("C12.close-hang", "producer shutdown did not complete; parked: %v", frames)
	}
	if ps.c.Config.Sync && ps.closeRequested && ps.closeReturned && len(lost) > 0 {
		ps.r.violate("C12.close-hang", "SyncProducer.Close returned but callers of SendMessage(s) are still blocked waiting for the outcome of %v; parked: %v", lost, frames)
	}
	// C16: a buffered message is sent once a configured trigger fires, without waiting for further input.
	// With Flush.Frequency set (or no trigger at all) every accepted message must reach the wire.
	if f := ps.c.Config.Flush; f.FreqMs > 0 || (f.Messages == 0 && f.Bytes == 0) {
		var never []string
		for _, mi := range ps.sortedMsgs() {
			if mi.submitted && mi.wireCount == 0 && len(mi.events) == 0 {
				never = append(never, fmt.Sprintf("m%d", mi.id))
			}
		}
		if len(never) > 0 && strings.Contains(ps.historyClass(), "fault-free") {
			ps.r.violate("C16.flush-late", "messages %v were accepted but never sent although Flush.Frequency=%dms (or no trigger) requires a flush without further input; waited %d ms of fake time", never, f.FreqMs, ps.c.MaxSimMs)
		}
	}
	ps.judge()
}

// checkHeldBuffers (C16, fault-free runs with a count or byte trigger and no Flush.Frequency): once the input has
// been quiet for longer than every request in the run could have taken, what is still held back per broker must
// be below every configured trigger - "a buffered message is sent once any configured trigger fires, without
// waiting for further input". Key+value bytes are a lower bound of what the producer counts per message.
func (ps *prodScen) checkHeldBuffers() {
	f := ps.c.Config.Flush
	if ps.c.Property != "C16" || (f.Messages == 0 && f.Bytes == 0) || f.FreqMs > 0 || ps.c.Config.Sync {
		return
	}
	if !strings.Contains(ps.historyClass(), "fault-free") {
		return
	}
	rtt := int64(2*ps.c.Net.MaxUs + 2000)
	if ps.c.Net.Model == "heavy" {
		rtt *= 10
	}
	// the application simply waits (fake time costs nothing) until every request of the run has long been answered
	if quiet, need := ps.r.k.nowUs()-ps.lastSubmitUs, int64(ps.produceReqs+8)*rtt+int64(ps.c.Config.DialTimeoutMs)*1000; quiet < need {
		ps.r.nap(time.Duration(need-quiet) * time.Microsecond)
	}
	// ... and until the request pipeline has drained: no new produce request during four round trips
	// (with Flush.MaxMessages=1 every message already submitted still needs a request of its own)
	for i := 0; i < 100000; i++ {
		n := ps.produceReqs
		ps.r.nap(time.Duration(4*rtt) * time.Microsecond)
		if ps.produceReqs == n {
			break
		}
	}
	if !strings.Contains(ps.historyClass(), "fault-free") {
		return
	}
	type held struct {
		n, bytes int
		ids      []string
	}
	by := map[int32]*held{}
	var brokers []int32
	for _, mi := range ps.sortedMsgs() {
		if !mi.submitted || mi.wireCount != 0 || len(mi.events) != 0 || len(mi.pcalls) != 1 {
			continue
		}
		pc := mi.pcalls[0]
		t := ps.cl.topics[mi.op.Topic]
		if pc.err != nil || pc.choice < 0 || pc.choice >= pc.n || t == nil || int(pc.n) != len(t.parts) {
			return // not the plain situation this rule is about
		}
		var part *mpart
		for _, p := range t.parts {
			if p.id == pc.choice {
				part = p
			}
		}
		if part == nil || part.leader < 0 {
			return
		}
		h := by[part.leader]
		if h == nil {
			h = &held{}
			by[part.leader] = h
			brokers = append(brokers, part.leader)
		}
		h.n++
		h.bytes += len(mi.key) + len(mi.val)
		h.ids = append(h.ids, fmt.Sprintf("m%d", mi.id))
	}
	sort.Slice(brokers, func(i, j int) bool { return brokers[i] < brokers[j] })
	for _, b := range brokers {
		h := by[b]
		ps.r.probe("held-back-messages-inspected-after-input-stopped")
		if f.Messages > 0 && h.n >= f.Messages {
			ps.r.violate("C16.flush-late", "input has been quiet for %d us, yet %d messages for broker %d (%v) are still held back although Flush.Messages=%d", ps.r.k.nowUs()-ps.lastSubmitUs, h.n, b, h.ids, f.Messages)
		}
		if f.Bytes > 0 && h.bytes >= f.Bytes {
			ps.r.violate("C16.flush-late", "input has been quiet for %d us, yet messages for broker %d (%v) with %d key+value bytes are still held back although Flush.Bytes=%d", ps.r.k.nowUs()-ps.lastSubmitUs, b, h.ids, h.bytes, f.Bytes)
		}
	}
}

// historyClass: facts about the run so far that known-finding predicates may refer to.
func (ps *prodScen) historyClass() string {
	var cls []string
	if ps.c.Config.Idempotent {
		cls = append(cls, "idempotent")
	} else {
		cls = append(cls, "plain")
	}
	f := ps.r.faults
	if f["drop-after"]+f["drop-before"]+f["silence"]+f["conn-reset"]+f["broker-crash"]+f["refuse"]+f["dial-timeout"]+f["read-timeout"] > 0 {
		cls = append(cls, "conn-failure")
	}
	nf := 0
	for _, n := range f {
		nf += n
	}
	if nf == 0 {
		cls = append(cls, "fault-free")
	}
	ps.mu.Lock()
	for _, mi := range ps.msgs {
		for _, ev := range mi.events {
			if !ev.ok {
				cls = append(cls, "after-error-outcome")
				goto done
			}
		}
	}
done:
	ps.mu.Unlock()
	return strings.Join(cls, ",")
}

// classifyLoss describes a lost outcome for known-finding predicates (history facts only).
func (ps *prodScen) classifyLoss() string {
	var cls []string
	if ps.c.Config.Idempotent {
		cls = append(cls, "idempotent")
	} else {
		cls = append(cls, "plain")
	}
	nf := 0
	for _, n := range ps.r.faults {
		nf += n
	}
	if nf == 0 {
		cls = append(cls, "fault-free")
	}
	if h := ps.historyClass(); strings.Contains(h, "conn-failure") {
		cls = append(cls, "conn-failure")
	}
	if h := ps.historyClass(); strings.Contains(h, "after-error-outcome") {
		cls = append(cls, "after-error-outcome")
	}
	never := true
	for _, mi := range ps.msgs {
		if mi.submitted && len(mi.events) == 0 && mi.wireCount > 0 {
			never = false
		}
	}
	if never {
		cls = append(cls, "never-on-wire")
	}
	f := ps.c.Config.Flush
	if f.FreqMs == 0 && (f.Messages > 0 || f.Bytes > 0) {
		cls = append(cls, "size-trigger-no-frequency")
	}
	return strings.Join(cls, ",")
}

// ---- wire observation (C05 wire rules, C16 limits, C17 routing) ----

func (ps *prodScen) onProduce(br *mbroker, c *simConn, ver int16, frameLen int, pr *produceReq, sets map[string][]wbatch) {
	r := ps.r
	now := r.k.nowUs()
	total := 0
	for _, p := range pr.parts {
		key := fmt.Sprintf("%s/%d", p.topic, p.partition)
		bs := sets[key]
		if len(bs) == 0 {
			r.probe("empty-partition-block-on-wire")
		}
		kv := 0
		n := 0
		for _, b := range bs {
			var ids []string
			for _, rec := range b.recs {
				n++
				kv += len(rec.key) + len(rec.val)
				id := idOfRec(rec.key, rec.val)
				ids = append(ids, strconv.Itoa(id))
				mi := ps.msgs[id]
				if mi == nil {
					r.violate("C04.extra-record", "produce request for %s carries a record that is no submitted message (key=%q value=%q)", key, rec.key, trunc(rec.val))
					continue
				}
				if mi.wireUs < 0 {
					mi.wireUs = now
				}
				mi.wireCount++
				if mi.wireCount == 2 {
					r.probe("message-resent")
				}
				ps.checkOversize(mi, &rec, key)
				if b.magic == 2 && b.pid >= 0 && ps.c.Config.Idempotent {
					mi.seqs = append(mi.seqs, seqStamp{b.pid, b.epoch, b.baseSeq + int32(len(ids)-1)})
				}
			}
			if b.magic == 2 && ps.c.Config.Idempotent {
				if b.pid < 0 {
					r.violate("C05.seq-gap", "idempotent producer sent a batch without producer id to %s", key)
				} else {
					ps.checkWireSeq(key, &b, ids)
				}
			}
		}
		total += n
		if n > 1 && kv > ps.cfg.Producer.MaxMessageBytes {
			r.violate("C16.batch-too-big", "batch for %s carries %d messages with %d key+value bytes > MaxMessageBytes=%d", key, n, kv, ps.cfg.Producer.MaxMessageBytes)
		}
	}
	ps.produceReqs++
	if mm := ps.cfg.Producer.Flush.MaxMessages; mm > 0 && total > mm {
		r.violate("C16.too-many-messages", "produce request carries %d messages > Flush.MaxMessages=%d", total, mm)
	}
	if frameLen-4 > int(sarama.MaxRequestSize) {
		r.violate("C16.request-too-big", "produce request of %d bytes > MaxRequestSize=%d", frameLen-4, sarama.MaxRequestSize)
	}
	if total == 0 {
		r.probe("empty-produce-request")
	}
}

func trunc(b []byte) string {
	if len(b) > 24 {
		return string(b[:24]) + "..."
	}
	return string(b)
}

// checkOversize: the size of a message is its key and value plus the documented per-version overhead estimate
// (26 bytes for the legacy formats; 36 bytes plus key, value and 10 bytes per header for record batches).
func (ps *prodScen) checkOversize(mi *msgInfo, rec *wrec, where string) {
	max := ps.cfg.Producer.MaxMessageBytes
	if len(mi.key)+len(mi.val) > max {
		ps.r.violate("C16.oversize-sent", "message m%d with %d key+value bytes > MaxMessageBytes=%d was sent (%s)", mi.id, len(mi.key)+len(mi.val), max, where)
		return
	}
	est := len(rec.key) + len(rec.val)
	if ps.v2 {
		est += 36
		for _, h := range rec.headers {
			est += len(h.k) + len(h.v) + 10
		}
	} else {
		est += 26
	}
	if est > max {
		ps.r.violate("C16.oversize-sent", "message m%d of size %d (key %d + value %d + %d headers + per-message overhead for this version) > MaxMessageBytes=%d was sent (%s)", mi.id, est, len(rec.key), len(rec.val), len(rec.headers), max, where)
	}
}

func (ps *prodScen) checkWireSeq(part string, b *wbatch, ids []string) {
	r := ps.r
	k := fmt.Sprintf("%d/%d/%s", b.pid, b.epoch, part)
	ws := ps.wire[k]
	if ws == nil {
		ws = &wireSeq{ranges: map[int32]string{}}
		ps.wire[k] = ws
	}
	n := int32(len(ids))
	desc := fmt.Sprintf("%d..%d[%s]", b.baseSeq, b.baseSeq+n-1, strings.Join(ids, ","))
	if prev, ok := ws.ranges[b.baseSeq]; ok {
		if prev != desc {
			r.violateClass("C05.resend-differs", ps.seqClass(ids), "%s pid=%d epoch=%d: resent batch %s differs from the batch first sent with that sequence, %s", part, b.pid, b.epoch, desc, prev)
		} else {
			r.probe("identical-batch-resent")
		}
		return
	}
	if b.baseSeq < ws.next {
		r.violateClass("C05.resend-differs", ps.seqClass(ids), "%s pid=%d epoch=%d: batch %s re-uses sequence numbers below %d with a different range", part, b.pid, b.epoch, desc, ws.next)
		return
	}
	if b.baseSeq != ws.next {
		r.violateClass("C05.seq-gap", ps.seqClass(ids), "%s pid=%d epoch=%d: fresh batch %s does not start at previous last+1=%d", part, b.pid, b.epoch, desc, ws.next)
	}
	ws.ranges[b.baseSeq] = desc
	ws.next = b.baseSeq + n
}

// seqClass: were any of these messages through a connection-level failure (finding A) or stamped
// under an older epoch (finding B) before?
func (ps *prodScen) seqClass(ids []string) string {
	var cls []string
	for _, s := range ids {
		id, _ := strconv.Atoi(s)
		mi := ps.msgs[id]
		if mi == nil {
			continue
		}
		epochs := map[int16]bool{}
		for _, st := range mi.seqs {
			epochs[st.epoch] = true
		}
		if len(epochs) > 1 {
			cls = append(cls, "multi-epoch")
		}
	}
	if ps.r.faults["drop-after"]+ps.r.faults["drop-before"]+ps.r.faults["silence"]+ps.r.faults["conn-reset"]+ps.r.faults["broker-crash"]+ps.r.faults["read-timeout"] > 0 {
		cls = append(cls, "conn-failure")
	}
	if strings.Contains(ps.historyClass(), "after-error-outcome") {
		cls = append(cls, "after-error-outcome")
	}
	sort.Strings(cls)
	return strings.Join(uniq(cls), ",")
}

func uniq(s []string) []string {
	var out []string
	for i, x := range s {
		if i == 0 || x != s[i-1] {
			out = append(out, x)
		}
	}
	return out
}

// ---- partitioner contract (C17) ----

func (ps *prodScen) recordView() {
	v := viewLists{view: ps.cl.view, all: map[string][]int32{}, writable: map[string][]int32{}}
	for _, t := range ps.cl.sortedTopics() {
		var all, wr []int32
		for _, p := range t.parts {
			all = append(all, p.id)
			if p.leader >= 0 {
				wr = append(wr, p.id)
			}
		}
		sort.Slice(all, func(i, j int) bool { return all[i] < all[j] })
		sort.Slice(wr, func(i, j int) bool { return wr[i] < wr[j] })
		v.all[t.name], v.writable[t.name] = all, wr
	}
	ps.views = append(ps.views, v)
}

func (ps *prodScen) checkPartitionerContract(o *oraclePartitioner, m *sarama.ProducerMessage, n, choice int32, err error) {
	r := ps.r
	if o.kind == "bad" {
		return
	}
	if err == nil && (choice < 0 || choice >= n) {
		r.violate("C17.partitioner-out-of-range", "%s partitioner returned %d for %d partitions (key=%v)", o.kind, choice, n, m.Key)
		return
	}
	if err != nil {
		return
	}
	var key []byte
	if m.Key != nil {
		key, _ = m.Key.Encode()
	}
	switch o.kind {
	case "hash", "", "refhash", "customhash", "custom-absfirst", "custom-hashfn", "custom-fallback", "customhash-slow", "custom-hashfn-slow":
		if m.Key == nil {
			return
		}
		hk := fmt.Sprintf("%s|%d|%x", o.topic, n, key)
		if prev, ok := ps.hashSeen[hk]; ok && prev != choice {
			r.violate("C17.hash-inconsistent", "%s partitioner mapped key %q to %d and to %d with %d partitions", o.kind, key, prev, choice, n)
		}
		ps.hashSeen[hk] = choice
		if o.kind == "refhash" {
			h := fnv.New32a()
			h.Write(key)
			want := int32((h.Sum32() & 0x7fffffff) % uint32(n))
			if want != choice {
				r.violate("C17.reference-hash-mismatch", "reference hash partitioner: key %q, %d partitions: got %d, Java client gives %d", key, n, choice, want)
			}
		}
	case "manual":
		if choice != m.Partition {
			r.violate("C17.wrong-partition", "manual partitioner returned %d for a message with Partition=%d", choice, m.Partition)
		}
	case "roundrobin":
		rk := fmt.Sprintf("%s|%d", o.topic, n)
		if prev, ok := ps.rrLast[rk]; ok && ps.rrLast[o.topic+"|n"] == n {
			if choice != (prev+1)%n {
				r.violate("C17.roundrobin-skips", "round-robin partitioner went from %d to %d with %d partitions", prev, choice, n)
			}
		}
		ps.rrLast[rk] = choice
		ps.rrLast[o.topic+"|n"] = n
	}
}

// ---- end-of-run oracles ----

func (ps *prodScen) judge() {
	r := ps.r
	c := ps.c
	finished := ps.closeReturned
	msgs := ps.sortedMsgs()

	// C01: exactly one outcome per accepted message
	if finished {
		for _, mi := range msgs {
			if !mi.submitted {
				continue
			}
			switch {
			case len(mi.events) == 0 && c.Config.CloseMode == "close" && !c.Config.Sync:
				// Close() drains and discards successes itself: only at-most-once is judged
			case len(mi.events) == 0:
				r.violateClass("C01.lost-outcome", ps.classifyLoss(), "message m%d was accepted but received no terminal event although the producer shut down (channels closed)", mi.id)
			}
			if c.Config.Sync && mi.syncRet != 1 {
				r.violate("C01.sync-wrong-outcome", "SendMessage for m%d returned %d times", mi.id, mi.syncRet)
			}
		}
		if !c.Config.Sync && (!ps.succClosed || !ps.errClosed) && c.Config.CloseMode != "close" {
			r.violate("C01.close-hang", "channels not closed after shutdown (successes closed=%v errors closed=%v)", ps.succClosed, ps.errClosed)
		}
	}

	// per partition log views
	type logRec struct {
		id  int
		rec *mrec
	}
	for _, t := range ps.cl.sortedTopics() {
		for _, p := range t.parts {
			seenID := map[int]int64{}
			lastSeq := map[int]int{} // actor -> last first-occurrence seq
			lastID := map[int]int{}
			for _, b := range p.batches {
				for _, rec := range b.recs {
					id := idOfRec(rec.key, rec.val)
					mi := ps.msgs[id]
					if mi == nil {
						r.violate("C04.extra-record", "log %s@%d holds a record that is no submitted message (key=%q value=%q)", p.key(), rec.offset, rec.key, trunc(rec.val))
						continue
					}
					// C04 content
					ps.checkContent(mi, rec, p)
					if first, dup := seenID[id]; dup {
						if c.Config.Idempotent {
							cls := ps.dupClass(mi, p, first, rec)
							r.violateClass("C05.duplicate-append", cls, "idempotent producer: message m%d appended twice to %s (offsets %d and %d) [%s]", id, p.key(), first, rec.offset, cls)
						} else {
							r.probe("non-idempotent-duplicate")
						}
						continue
					}
					seenID[id] = rec.offset
					// C02 log order: first copies in submission order per submitting goroutine
					if prev, ok := lastSeq[mi.actor]; ok && mi.seq < prev {
						cls := ps.orderClass(p)
						r.violateClass("C02.log-order", cls, "%s: first copy of m%d (goroutine %d, submission #%d) is at offset %d, after m%d (submission #%d) [%s]", p.key(), id, mi.actor, mi.seq, rec.offset, lastID[mi.actor], prev, cls)
					} else {
						lastSeq[mi.actor] = mi.seq
						lastID[mi.actor] = id
					}
				}
			}
		}
	}

	// successes: place, content, order
	type succ struct {
		mi  *msgInfo
		ev  pevent
	}
	byPartActor := map[string][]succ{}
	for _, mi := range msgs {
		for _, ev := range mi.events {
			if !ev.ok {
				continue
			}
			// C17 routing
			ps.checkRouting(mi, ev.partition, true)
			if c.Config.Acks == 0 && !c.Config.Idempotent {
				continue
			}
			p := ps.cl.part(mi.op.Topic, ev.partition)
			if p == nil {
				r.violate("C04.wrong-place", "m%d reported successful on nonexistent partition %s/%d", mi.id, mi.op.Topic, ev.partition)
				continue
			}
			rec := findOffset(p, ev.offset)
			if rec == nil || idOfRec(rec.key, rec.val) != mi.id {
				cls := ""
				got := "nothing"
				if rec != nil {
					got = fmt.Sprintf("m%d", idOfRec(rec.key, rec.val))
				}
				cls = ps.historyClass()
				if logHas(p, mi.id) {
					cls += ",in-log-elsewhere"
				} else {
					cls += ",not-in-log"
				}
				if !logHas(p, mi.id) {
					if c.Config.Idempotent {
						r.violateClass("C05.success-not-in-log", cls, "m%d reported successful at %s@%d but the log does not contain it", mi.id, p.key(), ev.offset)
					}
					if c.Config.Sync {
						r.violate("C01.sync-wrong-outcome", "SendMessage(m%d) returned nil error but %s does not hold the message", mi.id, p.key())
					}
				}
				r.violateClass("C04.wrong-place", cls, "m%d reported successful at %s@%d but that offset holds %s", mi.id, p.key(), ev.offset, got)
				continue
			}
			k := fmt.Sprintf("%s|%d", p.key(), mi.actor)
			byPartActor[k] = append(byPartActor[k], succ{mi, ev})
		}
	}
	var keys []string
	for k := range byPartActor {
		keys = append(keys, k)
	}
	sort.Strings(keys)
	for _, k := range keys {
		l := byPartActor[k]
		sort.Slice(l, func(i, j int) bool { return l[i].mi.seq < l[j].mi.seq })
		for i := 1; i < len(l); i++ {
			if l[i].ev.offset <= l[i-1].ev.offset {
				part := ps.cl.part(l[i].mi.op.Topic, l[i].ev.partition)
				cls := ps.orderClass(part)
				r.violateClass("C02.success-order", cls, "%s: m%d (submission #%d) succeeded at offset %d but the earlier m%d (submission #%d) at offset %d [%s]", strings.Split(k, "|")[0], l[i].mi.id, l[i].mi.seq, l[i].ev.offset, l[i-1].mi.id, l[i-1].mi.seq, l[i-1].ev.offset, cls)
			}
		}
	}

	// C16 oversize must be rejected; C17 bad choices must fail without sending; C18 trails
	// C17: the producer refuses to partition further messages of a topic ("circuit breaker is open", partitioner never asked) only after three
	// failures of the partition lookup or of the partitioner itself. A message that merely found no partition
	// available (the partitioner was never asked, ErrLeaderNotAvailable, never on the wire) is failed on its own,
	// and a message whose partitioner gave a usable answer passed the breaker: neither can explain a refusal.
	// (Failures of any other kind are counted as possible causes: the rule is a necessary condition only.)
	{
		topicErrFault := false
		for _, f := range c.Faults {
			if f.Do == "topic-err" {
				topicErrFault = true
			}
		}
		causes := map[string]int{}
		refused := map[string]*msgInfo{}
		var refusedTopics []string
		for _, mi := range msgs {
			if !mi.submitted {
				continue
			}
			for _, ev := range mi.events {
				if ev.ok || ev.err == nil {
					continue
				}
				if strings.Contains(ev.err.Error(), "circuit breaker is open") {
					// (a message that was partitioned and is refused later met the per-partition breaker of the
					// leader lookup, which is not this rule's subject)
					if len(mi.pcalls) == 0 && refused[mi.op.Topic] == nil {
						refused[mi.op.Topic] = mi
						refusedTopics = append(refusedTopics, mi.op.Topic)
					}
					continue
				}
				badCall := false
				for _, pc := range mi.pcalls {
					if pc.err != nil || pc.choice < 0 || pc.choice >= pc.n {
						badCall = true
					}
				}
				switch {
				case badCall:
					causes[mi.op.Topic]++
				case len(mi.pcalls) > 0:
					// passed the breaker
				case !topicErrFault && mi.wireCount == 0 && strings.Contains(ev.err.Error(), sarama.ErrLeaderNotAvailable.Error()):
					// no partition available
				default:
					causes[mi.op.Topic]++
				}
			}
		}
		sort.Strings(refusedTopics)
		for _, t := range refusedTopics {
			if causes[t] < 3 {
				r.violate("C17.refused-without-cause", "m%d of topic %s was refused with \"circuit breaker is open\" although only %d message(s) of the topic failed in the partition lookup or the partitioner in the whole run (three are needed; messages that found no partition available are failed one by one and do not count)", refused[t].id, t, causes[t])
			}
		}
	}
	for _, mi := range msgs {
		if !mi.submitted {
			continue
		}
		if len(mi.key)+len(mi.val) > ps.cfg.Producer.MaxMessageBytes && finished {
			for _, ev := range mi.events {
				if ev.ok {
					r.violate("C16.oversize-sent", "oversize message m%d (%d bytes > %d) reported successful", mi.id, len(mi.key)+len(mi.val), ps.cfg.Producer.MaxMessageBytes)
				}
			}
		}
		for _, pc := range mi.pcalls {
			bad := pc.err != nil || pc.choice < 0 || pc.choice >= pc.n
			if bad {
				if mi.wireCount > 0 {
					r.violate("C17.sent-despite-bad-choice", "m%d was sent although its partitioner returned choice=%d err=%v for %d partitions", mi.id, pc.choice, pc.err, pc.n)
				}
				for _, ev := range mi.events {
					if ev.ok {
						r.violate("C17.sent-despite-bad-choice", "m%d reported successful although its partitioner returned choice=%d err=%v for %d partitions", mi.id, pc.choice, pc.err, pc.n)
					}
				}
			}
		}
		if len(mi.pcalls) > 1 {
			r.violate("C17.wrong-partition", "partitioner consulted %d times for m%d (partition choice must be applied once, on the first pass)", len(mi.pcalls), mi.id)
		}
		if n := c.Config.Interceptors; n > 0 {
			want := make([]int, n)
			for i := range want {
				want[i] = i
			}
			if fmt.Sprint(mi.trail) != fmt.Sprint(want) {
				r.violate("C18.producer-trail", "interceptors applied to m%d: %v, expected exactly %v (retried=%v)", mi.id, mi.trail, want, mi.wireCount > 1)
			}
		}
	}
	// C16 flush timing (fault-free runs): with Flush.Frequency set, or no trigger configured, a message is on
	// the wire within the flush interval plus the round trips of the requests queued ahead of it
	if f := c.Config.Flush; strings.Contains(ps.historyClass(), "fault-free") && (f.FreqMs > 0 || (f.Messages == 0 && f.Bytes == 0)) {
		rtt := int64(2*c.Net.MaxUs + 2000)
		if c.Net.Model == "heavy" {
			rtt *= 10
		}
		bound := int64(f.FreqMs)*2000 + int64(ps.produceReqs+8)*rtt + int64(c.Config.DialTimeoutMs)*1000
		for _, mi := range msgs {
			if mi.submitted && mi.wireUs >= 0 && mi.wireUs-mi.submitUs > bound {
				r.violate("C16.flush-late", "m%d reached the wire %d us after it was submitted; Flush.Frequency=%dms, %d produce requests in the run, bound %d us", mi.id, mi.wireUs-mi.submitUs, f.FreqMs, ps.produceReqs, bound)
				break
			}
		}
	}
	// nontrivial: a fault fired while messages were in flight and later progress happened
	nf := 0
	for _, n := range r.faults {
		nf += n
	}
	r.res.Nontrivial = nf > 0 || len(msgs) > 1
}

func findOffset(p *mpart, off int64) *mrec {
	for _, b := range p.batches {
		if off >= b.first && off <= b.last {
			for _, r := range b.recs {
				if r.offset == off {
					return r
				}
			}
		}
	}
	return nil
}

func logHas(p *mpart, id int) bool {
	for _, b := range p.batches {
		for _, r := range b.recs {
			if idOfRec(r.key, r.val) == id {
				return true
			}
		}
	}
	return false
}

func (ps *prodScen) checkContent(mi *msgInfo, rec *mrec, p *mpart) {
	r := ps.r
	if !bytes.Equal(rec.val, mi.val) || (rec.val == nil) != (mi.val == nil) {
		r.violate("C04.wrong-content", "%s@%d: value of m%d differs from what was submitted (%d vs %d bytes)", p.key(), rec.offset, mi.id, len(rec.val), len(mi.val))
	}
	if !bytes.Equal(rec.key, mi.key) || (rec.key == nil) != (mi.key == nil) {
		r.violate("C04.wrong-content", "%s@%d: key of m%d differs: log %q (nil=%v) submitted %q (nil=%v)", p.key(), rec.offset, mi.id, rec.key, rec.key == nil, mi.key, mi.key == nil)
	}
	// headers: submitted headers followed by one per interceptor application
	want := append([]hdr(nil), mi.headers...)
	if ps.v2 {
		for _, i := range mi.trail {
			want = append(want, hdr{[]byte("icpt"), []byte(strconv.Itoa(i))})
		}
	}
	if rec.batch.wb.magic == 2 {
		ok := len(want) == len(rec.headers)
		if ok {
			for i := range want {
				if !bytes.Equal(want[i].k, rec.headers[i].k) || !bytes.Equal(want[i].v, rec.headers[i].v) {
					ok = false
				}
			}
		}
		// With interceptors the header list can legitimately lag the trail (sent before a later
		// re-application); content equality is judged against the submitted prefix then.
		if !ok && len(mi.trail) <= ps.c.Config.Interceptors {
			r.violate("C04.wrong-content", "%s@%d: headers of m%d differ: log %s submitted %s", p.key(), rec.offset, mi.id, fmtHdrs(rec.headers), fmtHdrs(want))
		}
	}
	if !mi.ts.IsZero() && rec.batch.wb.magic >= 1 {
		if rec.tsMs != mi.ts.UnixMilli() {
			r.violate("C04.wrong-content", "%s@%d: timestamp of m%d is %d, submitted %d", p.key(), rec.offset, mi.id, rec.tsMs, mi.ts.UnixMilli())
		}
	}
}

func fmtHdrs(h []hdr) string {
	var s []string
	for _, x := range h {
		s = append(s, fmt.Sprintf("%s=%s", x.k, x.v))
	}
	return "[" + strings.Join(s, ",") + "]"
}

// checkRouting: the partition a message landed in must be list[choice] for a metadata view that existed.
func (ps *prodScen) checkRouting(mi *msgInfo, partition int32, success bool) {
	if len(mi.pcalls) == 0 {
		return
	}
	pc := mi.pcalls[0]
	if pc.err != nil || pc.choice < 0 || pc.choice >= pc.n {
		return
	}
	ok := false
	for _, v := range ps.views {
		list := v.writable[mi.op.Topic]
		if pc.consistent {
			list = v.all[mi.op.Topic]
		}
		if int(pc.n) == len(list) && list[pc.choice] == partition {
			ok = true
		}
	}
	if !ok {
		ps.r.violate("C17.wrong-partition", "m%d: partitioner chose index %d of %d (consistency=%v) but the message was reported on partition %d; views: %v", mi.id, pc.choice, pc.n, pc.consistent, partition, ps.views)
		ps.r.violate("C04.wrong-place", "m%d is reported on partition %d, which is not the partition its partitioner chose (index %d of %d offered, consistency=%v)", mi.id, partition, pc.choice, pc.n, pc.consistent)
	}
}

// dupClass explains a duplicate append for known-finding classification.
func (ps *prodScen) dupClass(mi *msgInfo, p *mpart, first int64, second *mrec) string {
	a := findOffset(p, first)
	var cls []string
	if a != nil && a.batch.wb.epoch != second.batch.wb.epoch {
		cls = append(cls, "cross-epoch")
	} else {
		cls = append(cls, "same-epoch")
	}
	if a != nil && a.batch.wb.epoch == second.batch.wb.epoch && len(a.batch.recs) == 1 && len(second.batch.recs) == 1 {
		// both copies arrived alone in their batch under one epoch: a resend that keeps its sequence number is
		// recognised by the broker whatever else was regrouped, so finding A (regrouped resends) cannot explain it
		cls = append(cls, "alone-in-its-batch-both-times")
	}
	if a != nil && a.batch.faulted != "" {
		cls = append(cls, "first-copy-ack-lost:"+a.batch.faulted)
	}
	if ps.r.faults["drop-after"]+ps.r.faults["drop-before"]+ps.r.faults["silence"]+ps.r.faults["conn-reset"]+ps.r.faults["broker-crash"]+ps.r.faults["read-timeout"] > 0 {
		cls = append(cls, "conn-failure")
	}
	if strings.Contains(ps.historyClass(), "after-error-outcome") {
		cls = append(cls, "after-error-outcome")
	}
	return strings.Join(cls, ",")
}

// orderClass explains a reordering for known-finding classification: configuration facts plus
// whether an error outcome had been reported before the overtaken record was written.
func (ps *prodScen) orderClass(p *mpart) string {
	var cls []string
	cls = append(cls, fmt.Sprintf("retryMax=%d", ps.c.Config.RetryMax))
	if ps.c.Config.Idempotent {
		cls = append(cls, "idempotent")
	}
	nf := 0
	for _, n := range ps.r.faults {
		nf += n
	}
	if nf == 0 {
		cls = append(cls, "fault-free")
	}
	firstErr := int64(-1)
	for _, mi := range ps.msgs {
		for _, ev := range mi.events {
			if !ev.ok && (firstErr < 0 || ev.us < firstErr) {
				firstErr = ev.us
			}
		}
	}
	lastAppend := int64(-1)
	if p != nil && len(p.batches) > 0 {
		lastAppend = p.batches[len(p.batches)-1].atUs
	}
	if firstErr >= 0 && firstErr <= lastAppend {
		cls = append(cls, "after-error-outcome")
	}
	return strings.Join(cls, ",")
}

package main

import (
	"fmt"
	"sort"
	"strings"

	"github.com/Shopify/sarama"

	"simverif/cf"
)

// groupModel: group coordinator of the model cluster (offset store + group state machine).
type groupModel struct {
	cl          *cluster
	coordinator int32
	coordHist   []int32
	loading     bool
	offsets     map[string]map[string]*storedOffset // group -> "topic/part" -> value
	commits     []*commitRec
	groups      map[string]*mgroup
	nMember     int
	// hooks
	onCommit func(cr *commitRec)
	onJoinReq func(mg *mgroup, m *mmember, r *sarama.JoinGroupRequest)
	onHeartbeat func(mg *mgroup, r *sarama.HeartbeatRequest, e sarama.KError)
	onHeartbeatAns func(client string, r *sarama.HeartbeatRequest, e sarama.KError, c *simConn, corr int32)
	onState  func(mg *mgroup)
	onMemberGone func(mg *mgroup, id, why string)
	onPlan   func(mg *mgroup, rec *genRecord)
	onIssued func(client, member string, gen int32)
	onFenced func(client string, c *simConn, corr int32)
	onIssuedAt func(client, member string, c *simConn, corr int32)
	onVoided   func(client string) // a fault answered a group request with a code that makes the client drop its member id
	onOffsetFetch func(client, key string, off int64)
}

type storedOffset struct {
	offset   int64
	metadata string
}

// commitRec is one partition entry of one OffsetCommit request as the coordinator saw it.
type commitRec struct {
	group     string
	key       string
	offset    int64
	metadata  string
	atUs      int64
	e         uint64
	accepted  bool
	stale     bool // refused by a broker that is not the group's coordinator (any more)
	errCode   int16
	faulted   string
	member    string
	gen       int32
	retention int64
	reqNo     int
}

func newGroupModel(cl *cluster, c *cf.Case) *groupModel {
	g := &groupModel{cl: cl, offsets: map[string]map[string]*storedOffset{}, groups: map[string]*mgroup{}}
	g.coordinator = c.Cluster.Coordinator
	if g.coordinator == 0 {
		g.coordinator = cl.order[0]
	}
	return g
}

func (g *groupModel) stored(group, key string) *storedOffset {
	if m := g.offsets[group]; m != nil {
		return m[key]
	}
	return nil
}

func (g *groupModel) timedFault(f *cf.Fault) bool {
	switch f.Do {
	case "coordinator-move":
		g.cl.k.logf("fault coordinator-move %d->%d", g.coordinator, f.To)
		g.coordHist = append(g.coordHist, g.coordinator)
		g.coordinator = f.To
		g.cl.noteFault("coordinator-move")
		return true
	case "coordinator-loading":
		g.loading = f.N == 1
		g.cl.k.logf("fault coordinator-loading=%v", g.loading)
		g.cl.noteFault("coordinator-loading")
		return true
	}
	return g.groupTimedFault(f)
}

// serve handles the coordinator APIs; wired as cluster.extra.
func (g *groupModel) serve(br *mbroker, c *simConn, h reqHeader, body interface{}, fault *cf.Fault) ([]byte, bool, bool) {
	cl := g.cl
	var resp interface{}
	switch r := body.(type) {
	case *sarama.FindCoordinatorRequest:
		res := &sarama.FindCoordinatorResponse{Version: r.Version}
		co := cl.brokers[g.coordinator]
		switch {
		case fault != nil && fault.Do == "errcode":
			res.Err = sarama.KError(fault.Code)
			cl.noteFault("findcoordinator-errcode")
		case co == nil || !co.up:
			res.Err = sarama.ErrConsumerCoordinatorNotAvailable
		default:
			res.Coordinator = sarama.VerifBroker(co.id, co.addr)
		}
		if res.Coordinator == nil {
			res.Coordinator = sarama.VerifBroker(-1, ":0")
		}
		cl.k.logf("b%d FindCoordinator %s -> %d err=%d", br.id, r.CoordinatorKey, g.coordinator, res.Err)
		resp = res
	case *sarama.ConsumerMetadataRequest:
		res := &sarama.ConsumerMetadataResponse{}
		co := cl.brokers[g.coordinator]
		if co == nil || !co.up {
			res.Err = sarama.ErrConsumerCoordinatorNotAvailable
			res.Coordinator = sarama.VerifBroker(-1, ":0")
		} else {
			res.Coordinator = sarama.VerifBroker(co.id, co.addr)
		}
		resp = res
	case *sarama.OffsetFetchRequest:
		res := &sarama.OffsetFetchResponse{Version: r.Version}
		var desc []string
		for _, tp := range sarama.VerifOffsetFetchPartitions(r) {
			key := fmt.Sprintf("%s/%d", tp.Topic, tp.Partition)
			blk := &sarama.OffsetFetchResponseBlock{Offset: -1}
			switch {
			case br.id != g.coordinator:
				blk.Err = sarama.ErrNotCoordinatorForConsumer
			case g.loading:
				blk.Err = sarama.ErrOffsetsLoadInProgress
			case fault != nil && fault.Do == "errcode":
				blk.Err = sarama.KError(fault.Code)
				cl.noteFault("offsetfetch-errcode")
			default:
				if so := g.stored(r.ConsumerGroup, key); so != nil {
					blk.Offset, blk.Metadata = so.offset, so.metadata
				}
				if g.onOffsetFetch != nil {
					g.onOffsetFetch(h.client, key, blk.Offset)
				}
			}
			if fault != nil && fault.Do == "missing-block" {
				cl.noteFault("incomplete-response")
				continue
			}
			res.AddBlock(tp.Topic, tp.Partition, blk)
			desc = append(desc, fmt.Sprintf("%s=%d/%q err=%d", key, blk.Offset, blk.Metadata, blk.Err))
		}
		cl.k.logf("b%d OffsetFetch %s %s", br.id, r.ConsumerGroup, strings.Join(desc, " "))
		resp = res
	case *sarama.OffsetCommitRequest:
		resp = g.offsetCommit(br, r, fault)
	default:
		if b, ok := g.serveGroup(br, c, h, body, fault); ok {
			if b == nil {
				return nil, true, true
			}
			return b, true, false
		}
		return nil, false, false
	}
	out, err := sarama.VerifEncodeResponse(h.corr, resp)
	if err != nil {
		panic(fmt.Sprintf("model: encode %T: %v", resp, err))
	}
	return out, true, false
}

func (g *groupModel) offsetCommit(br *mbroker, r *sarama.OffsetCommitRequest, fault *cf.Fault) *sarama.OffsetCommitResponse {
	cl := g.cl
	res := &sarama.OffsetCommitResponse{Version: r.Version}
	var desc []string
	blocks := sarama.VerifOffsetCommitBlocks(r)
	groupErr := g.validateCommitIdentity(r)
	for _, tp := range blocks {
		key := fmt.Sprintf("%s/%d", tp.Topic, tp.Partition)
		cr := &commitRec{group: r.ConsumerGroup, key: key, offset: tp.Offset, metadata: tp.Metadata, atUs: cl.k.nowUs(), e: cl.k.stamp(), member: r.ConsumerID, gen: r.ConsumerGroupGeneration, retention: r.RetentionTime, reqNo: cl.reqNo}
		faultHere := fault != nil && (fault.AllParts || fault.Topic == "" || (fault.Topic == tp.Topic && fault.Partition == tp.Partition))
		if fault != nil {
			cr.faulted = fault.Do
		}
		code := int16(0)
		switch {
		case br.id != g.coordinator:
			code = int16(sarama.ErrNotCoordinatorForConsumer)
			cr.stale = true
		case g.loading:
			code = int16(sarama.ErrOffsetsLoadInProgress)
		case groupErr != 0:
			code = groupErr
		case fault != nil && fault.Do == "errcode" && faultHere:
			code = int16(fault.Code)
			cl.noteFault("commit-errcode")
		}
		cr.errCode = code
		if code == 0 {
			cr.accepted = true
			if g.offsets[r.ConsumerGroup] == nil {
				g.offsets[r.ConsumerGroup] = map[string]*storedOffset{}
			}
			g.offsets[r.ConsumerGroup][key] = &storedOffset{tp.Offset, tp.Metadata}
		}
		g.commits = append(g.commits, cr)
		if g.onCommit != nil {
			g.onCommit(cr)
		}
		if fault != nil && fault.Do == "missing-block" && faultHere {
			cl.noteFault("incomplete-response")
			desc = append(desc, key+":MISSING")
			continue
		}
		res.AddError(tp.Topic, tp.Partition, sarama.KError(code))
		desc = append(desc, fmt.Sprintf("%s=%d/%q err=%d", key, tp.Offset, tp.Metadata, code))
	}
	sort.Strings(desc)
	cl.k.logf("b%d OffsetCommit v%d %s member=%q gen=%d %s", br.id, r.Version, r.ConsumerGroup, r.ConsumerID, r.ConsumerGroupGeneration, strings.Join(desc, " "))
	return res
}

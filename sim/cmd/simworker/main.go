// simworker executes exactly one case file (stdin) in one synctest bubble under the seeded
// runtime and prints one JSON result line. One OS process per case (DESIGN.md 2.1).
package main

import (
	"bufio"
	"crypto/sha256"
	"encoding/json"
	"fmt"
	"io"
	"os"
	"regexp"
	"runtime"
	"runtime/debug"
	"sort"
	"strings"
	"sync"
	"time"
	_ "unsafe"

	"github.com/Shopify/sarama"
	metrics "github.com/rcrowley/go-metrics"

	"simverif/cf"
)

//go:linkname simSeed runtime.simSeed
func simSeed(on bool, mode uint32, seed uint64)

//go:linkname simDrawCount runtime.simDrawCount
func simDrawCount() uint64

//go:linkname simBubbleRun runtime.simBubbleRun
func simBubbleRun(f func())

//go:linkname simBubbleWait runtime.simBubbleWait
func simBubbleWait()

//go:linkname simSetYield runtime.simSetYield
func simSetYield(n uint32)

//go:linkname simYieldCount runtime.simYieldCount
func simYieldCount() uint64

type memLog struct {
	lines []string
	on    bool
}

// notConnectedLogged: the client under test logged that a broker worker or refresh gave up on a broker because of
// ErrNotConnected (sarama's own report of the Broker.Open race, see KF-C15-open-race). Observation only.
var notConnectedLogged bool

func (m *memLog) add(s string) {
	if !notConnectedLogged && (strings.Contains(s, "because kafka: broker not connected") || strings.Contains(s, "while fetching metadata: kafka: broker not connected")) {
		notConnectedLogged = true
	}
	if m.on {
		if R != nil && R.k != nil {
			s = fmt.Sprintf("%d %s", R.k.nowUs(), s)
		}
		m.lines = append(m.lines, s)
	}
}
func (m *memLog) Print(v ...interface{})                 { m.add(fmt.Sprint(v...)) }
func (m *memLog) Printf(format string, v ...interface{}) { m.add(fmt.Sprintf(format, v...)) }
func (m *memLog) Println(v ...interface{})               { m.add(fmt.Sprint(v...)) }

var saramaLog = &memLog{}

// run is the state of the one run this process performs.
type run struct {
	c      *cf.Case
	k      *kernel
	res    cf.Result
	viol   []cf.Violation
	probes map[string]int
	faults map[string]int
	done   bool
	verbose bool
	stopWatch chan struct{}
	post      func() // post-run checks executed outside the bubble (real time allowed)
	inconclusive string
	hangBenign   bool // the watchdog fired but the scenario found no pending obligation of any property
	closeNow  chan struct{} // closed when the case's close-at(k) point is reached (C12)
	closeOnce sync.Once
	classify  func() string // history facts attached to violations that carry no class of their own
	extraClass func() string // history facts attached to every violation at the moment it is recorded
	finalClass func(v *cf.Violation) // last look at each violation when the whole history is known
}

var R *run

func (r *run) violate(rule, format string, a ...any) {
	d := fmt.Sprintf(format, a...)
	for _, v := range r.viol {
		if v.Rule == rule && v.Detail == d {
			return
		}
	}
	if len(r.viol) < 64 {
		v := cf.Violation{Rule: rule, Detail: d}
		if r.classify != nil {
			v.Class = r.classify()
		}
		if r.extraClass != nil {
			if t := r.extraClass(); t != "" && !strings.Contains(v.Class, t) {
				if v.Class != "" {
					v.Class += ","
				}
				v.Class += t
			}
		}
		r.viol = append(r.viol, v)
	}
	r.k.logf("VIOLATION %s %s", rule, d)
}
func (r *run) violateClass(rule, class, format string, a ...any) {
	n := len(r.viol)
	r.violate(rule, format, a...)
	if len(r.viol) > n {
		if r.extraClass != nil {
			if t := r.extraClass(); t != "" && !strings.Contains(class, t) {
				if class != "" {
					class += ","
				}
				class += t
			}
		}
		r.viol[len(r.viol)-1].Class = class
	}
}
func (r *run) probe(name string)      { r.probes[name]++ }
func (r *run) fired(kind string)      { r.faults[kind]++ }

// finish prints the result and exits the process. Safe to call from inside the bubble:
// the run is over, so the syscalls no longer matter.
func (r *run) finish(verdict, note string) {
	if r.done {
		select {}
	}
	r.done = true
	draws, yields := simDrawCount(), simYieldCount()
	simSeed(false, 0, 0)
	res := &r.res
	res.Verdict = verdict
	res.Note = note
	if len(r.viol) > 0 && (verdict == "ok" || verdict == "leak" || verdict == "hang") {
		if verdict == "hang" {
			// keep the hang as an extra violation so the rule is visible
		}
		res.Verdict = "violation"
	}
	if r.finalClass != nil {
		for i := range r.viol {
			r.finalClass(&r.viol[i])
		}
	}
	res.Violations = r.viol
	res.Draws, res.Yields = draws, yields
	res.Probes, res.Faults = r.probes, r.faults
	if r.k != nil {
		res.Events = r.k.nEv
		res.SimTimeUs = r.k.nowUs()
		h := sha256.New()
		for _, l := range r.k.trace {
			io.WriteString(h, l)
			h.Write([]byte{'\n'})
		}
		res.TraceHash = fmt.Sprintf("%x", h.Sum(nil)[:8])
		// always emitted: the process environment must not differ between a search run and its replay
		res.Trace = r.k.trace
	}
	out, err := json.Marshal(res)
	if err != nil {
		fmt.Fprintln(os.Stderr, "marshal:", err)
		os.Exit(3)
	}
	w := bufio.NewWriter(os.Stdout)
	w.Write(out)
	w.WriteByte('\n')
	w.Flush()
	if r.verbose && os.Getenv("SIM_SARAMA_LOG") != "" {
		for _, l := range saramaLog.lines {
			fmt.Fprintln(os.Stderr, strings.TrimRight(l, "\n"))
		}
	}
	os.Exit(0)
}

// nap sleeps d of fake time, or until the close-at point of the case is reached.
func (r *run) nap(d time.Duration) {
	if d <= 0 {
		return
	}
	t := time.NewTimer(d)
	select {
	case <-t.C:
	case <-r.closeNow:
		t.Stop()
	}
}

func (r *run) closing() bool {
	select {
	case <-r.closeNow:
		return true
	default:
		return false
	}
}

func (r *run) triggerClose() {
	r.closeOnce.Do(func() {
		r.k.logf("close-at point reached (event %d)", r.k.nEv)
		close(r.closeNow)
	})
}

func goroutineDump() string {
	buf := make([]byte, 1<<20)
	n := runtime.Stack(buf, true)
	return string(buf[:n])
}

// blockedSaramaFrames summarises parked goroutines by their first sarama frame.
func blockedSaramaFrames(dump string) []string {
	set := map[string]int{}
	for _, g := range strings.Split(dump, "\n\n") {
		lines := strings.Split(g, "\n")
		for _, l := range lines {
			if strings.HasPrefix(l, "github.com/Shopify/sarama") {
				f := l
				if i := strings.LastIndex(f, "("); i > 0 {
					f = f[:i]
				}
				set[strings.TrimPrefix(f, "github.com/Shopify/sarama")]++
				break
			}
		}
	}
	var out []string
	for f, n := range set {
		out = append(out, fmt.Sprintf("%s x%d", f, n))
	}
	sort.Strings(out)
	return out
}

func main() {
	runtime.GOMAXPROCS(1)
	debug.SetGCPercent(-1)
	metrics.UseNilMetrics = true
	sarama.Logger = saramaLog
	// One fixed-size buffer: io.ReadAll would grow its buffer according to how the pipe happens to chunk
	// the data, and every later heap address (hence the order of large pointer-keyed maps) would shift.
	buf := make([]byte, 16<<20)
	n := 0
	for {
		k, err := os.Stdin.Read(buf[n:])
		n += k
		if err == io.EOF {
			break
		}
		if err != nil || n == len(buf) {
			fmt.Fprintln(os.Stderr, "read case:", err)
			os.Exit(3)
		}
	}
	data := buf[:n]
	var err error
	var c cf.Case
	if err = json.Unmarshal(data, &c); err != nil {
		fmt.Fprintln(os.Stderr, "parse case:", err)
		os.Exit(3)
	}
	R = &run{c: &c, probes: map[string]int{}, faults: map[string]int{}}
	if os.Getenv("SIM_ADDR") != "" {
		x := new([64]byte)
		y := new([200]byte)
		z := make(chan int)
		fmt.Fprintf(os.Stderr, "addr R=%p c=%p x=%p y=%p z=%p data=%p\n", R, &c, x, y, z, &data[0])
	}
	R.verbose = os.Getenv("SIM_VERBOSE") != ""
	saramaLog.on = R.verbose && os.Getenv("SIM_SARAMA_LOG") != ""
	sarama.PanicHandler = func(v interface{}) {
		R.violate(propRule("panic"), "panic in sarama goroutine: %v\n%s", v, trimStack(string(debug.Stack())))
		R.finish("violation", "panic")
	}
	mode := uint32(1)
	simSeed(true, mode, c.Sched.Seed)
	if c.Sched.Mode == "yield" && c.Sched.YieldN > 0 {
		simSetYield(uint32(c.Sched.YieldN))
	}
	var pan any
	func() {
		defer func() { pan = recover() }()
		simBubbleRun(func() {
			defer func() {
				if p := recover(); p != nil {
					// panic on the scenario's root goroutine (application-side call into sarama)
					R.violate(propRule("panic"), "panic: %v\n%s", p, trimStack(string(debug.Stack())))
					R.finish("violation", "panic")
				}
			}()
			R.closeNow = make(chan struct{})
			R.k = newKernel(&c)
			runScenario(R)
		})
	}()
	outsideBubble = true
	if pan != nil {
		msg := fmt.Sprint(pan)
		dump := goroutineDump()
		switch {
		case strings.Contains(msg, "main bubble goroutine has exited"):
			R.res.Leaks = blockedSaramaFrames(dump)
			if R.post != nil {
				R.post()
			}
			R.finish("leak", msg)
		case strings.Contains(msg, "all goroutines in bubble are blocked"):
			R.res.Dump = trimDump(dump)
			R.violate(propRule("hang"), "deadlock: every goroutine is blocked with no timer pending; parked in: %v", blockedSaramaFrames(dump))
			R.finish("violation", msg)
		default:
			R.violate(propRule("panic"), "panic: %v", msg)
			R.finish("violation", msg)
		}
	}
	if R.post != nil {
		R.post()
	}
	if R.inconclusive != "" && len(R.viol) == 0 {
		R.finish("inconclusive", R.inconclusive)
	}
	R.finish("ok", "")
}

func propRule(kind string) string { return R.c.Property + "." + kind }

var hexRe = regexp.MustCompile(`0x[0-9a-f]+|goroutine [0-9]+|\+0x[0-9a-f]+`)

func trimStack(s string) string {
	s = hexRe.ReplaceAllString(s, "_")
	lines := strings.Split(s, "\n")
	if len(lines) > 40 {
		lines = lines[:40]
	}
	return strings.Join(lines, "\n")
}

func trimDump(s string) string {
	if len(s) > 24000 {
		return s[:24000]
	}
	return s
}

var _ = time.Now

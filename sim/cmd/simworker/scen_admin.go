package main

import (
	"fmt"
	"sort"
	"strings"
	"time"

	"github.com/Shopify/sarama"

	"simverif/cf"
)

func init() { scenarios["admin"] = scenAdmin }

// adminReq is one admin request as the model saw it.
type adminReq struct {
	api        string
	broker     int32
	controller int32 // controller at that moment
	coordinator int32
	fault      string
	code       int16 // error code answered (first item)
	items      map[string]int16
	missing    bool
	applied    bool
	delivered  bool
	conn       *simConn
	corr       int32
	us         int64
	e          uint64
	partitions []int32
}

type adminScen struct {
	r    *run
	c    *cf.Case
	cl   *cluster
	gm   *groupModel
	reqs []*adminReq
	retryMax int
	curFault string
	leaderEver map[string]map[int32]bool // every broker that ever led a partition name (topics may be re-created)
}

func scenAdmin(r *run) {
	c := r.c
	k := r.k
	cl := newCluster(k, c)
	gm := newGroupModel(cl, c)
	cl.group = gm
	fm := newFetchModel(cl, c.Net.Seed^0xad)
	cl.fetch = fm
	fm.loadLogs(c)
	as := &adminScen{r: r, c: c, cl: cl, gm: gm, retryMax: c.Config.AdminRetryMax}
	cl.extra = as.serve
	cl.onRequest = func(c *simConn, h reqHeader, body interface{}, fault *cf.Fault) {
		as.curFault = ""
		if fault == nil {
			return
		}
		as.curFault = fault.Do
		if fault.Do == "drop-before" || (fault.Do == "silence" && !fault.Append) {
			// never reaches the handler: keep a stub so the attempt is counted
			q := &adminReq{api: apiName(h.api), broker: c.br.id, controller: cl.controller, coordinator: as.gm.coordinator, conn: c, corr: h.corr, us: cl.k.nowUs(), e: cl.k.stamp(), items: map[string]int16{}, fault: fault.Do, code: -2}
			if dr, ok := body.(*sarama.DeleteRecordsRequest); ok {
				for _, rt := range dr.Topics {
					for p := range rt.PartitionOffsets {
						q.partitions = append(q.partitions, p)
					}
				}
			}
			as.reqs = append(as.reqs, q)
		}
	}
	as.leaderEver = map[string]map[int32]bool{}
	snap := func() {
		for _, t := range cl.sortedTopics() {
			for _, p := range t.parts {
				if as.leaderEver[p.key()] == nil {
					as.leaderEver[p.key()] = map[int32]bool{}
				}
				as.leaderEver[p.key()][p.leader] = true
			}
		}
	}
	snap()
	cl.onView = snap
	cfg := baseConfig(c, cl)
	cfg.Admin.Retry.Max = c.Config.AdminRetryMax
	cfg.Admin.Retry.Backoff = ms(c.Config.AdminBackoffMs)
	if c.Config.AdminTimeoutMs > 0 {
		cfg.Admin.Timeout = ms(c.Config.AdminTimeoutMs)
	}
	if err := cfg.Validate(); err != nil {
		r.finish("infra", "generated config invalid: "+err.Error())
	}
	for i := range c.Workload {
		op := &c.Workload[i]
		if op.Op == "stored" {
			if gm.offsets[op.Arg] == nil {
				gm.offsets[op.Arg] = map[string]*storedOffset{}
			}
			gm.offsets[op.Arg][fmt.Sprintf("%s/%d", op.Topic, op.Partition)] = &storedOffset{op.Offset, "m"}
		}
	}
	watchdog(r, func(dump string) {
		r.violate("C19.false-failure", "an admin operation did not return within the liveness bound; parked: %v", blockedSaramaFrames(dump))
	})
	r.res.Ops = len(c.Workload)
	admin, err := sarama.NewClusterAdmin(cl.seedAddrs(), cfg)
	if err != nil {
		k.logf("NewClusterAdmin failed: %v", err)
		close(r.stopWatch)
		k.halt()
		return
	}
	for i := range c.Workload {
		op := &c.Workload[i]
		if op.Op != "admin" {
			continue
		}
		if op.ThinkUs > 0 {
			time.Sleep(time.Duration(op.ThinkUs) * time.Microsecond)
		}
		as.doOp(admin, op)
	}
	_ = admin.Close()
	nf := 0
	for _, n := range r.faults {
		nf += n
	}
	r.res.Nontrivial = nf > 0 || len(as.reqs) > 1
	time.Sleep(cfg.Net.DialTimeout + cfg.Net.ReadTimeout + time.Second)
	k.nowUs()
	close(r.stopWatch)
	k.halt()
}

func isNotController(err error) bool {
	switch e := err.(type) {
	case *sarama.TopicError:
		return e.Err == sarama.ErrNotController
	case *sarama.TopicPartitionError:
		return e.Err == sarama.ErrNotController
	case sarama.KError:
		return e == sarama.ErrNotController
	}
	return err != nil && strings.Contains(err.Error(), sarama.ErrNotController.Error())
}

func kerrOf(err error) (int16, bool) {
	switch e := err.(type) {
	case *sarama.TopicError:
		return int16(e.Err), true
	case *sarama.TopicPartitionError:
		return int16(e.Err), true
	case sarama.KError:
		return int16(e), true
	}
	return 0, false
}

func (as *adminScen) doOp(admin sarama.ClusterAdmin, op *cf.Op) {
	k := as.r.k
	r := as.r
	start := len(as.reqs)
	startFaults := as.cl.lastFaultUs
	invokeUs := k.nowUs()
	k.logf("admin %s %s invoke", op.Arg, op.Topic)
	var err error
	var fetched *sarama.OffsetFetchResponse
	var described []*sarama.GroupDescription
	switch op.Arg {
	case "create-topic":
		err = admin.CreateTopic(op.Topic, &sarama.TopicDetail{NumPartitions: int32(op.N), ReplicationFactor: 1}, false)
	case "delete-topic":
		err = admin.DeleteTopic(op.Topic)
	case "create-partitions":
		err = admin.CreatePartitions(op.Topic, int32(op.N), nil, false)
	case "alter-reassignments":
		var asg [][]int32
		for i := 0; i < op.N; i++ {
			asg = append(asg, []int32{as.cl.order[i%len(as.cl.order)]})
		}
		err = admin.AlterPartitionReassignments(op.Topic, asg)
	case "delete-records":
		offs := map[int32]int64{}
		for i, p := range op.Ints {
			offs[int32(p)] = int64(1 + i)
		}
		err = admin.DeleteRecords(op.Topic, offs)
	case "list-group-offsets":
		tps := map[string][]int32{op.Topic: {}}
		for _, p := range op.Ints {
			tps[op.Topic] = append(tps[op.Topic], int32(p))
		}
		fetched, err = admin.ListConsumerGroupOffsets(op.Args[0], tps)
	case "describe-groups":
		described, err = admin.DescribeConsumerGroups(op.Args)
	case "delete-group":
		err = admin.DeleteConsumerGroup(op.Args[0])
	}
	k.logf("admin %s %s -> %v", op.Arg, op.Topic, err)
	retUs := k.nowUs()
	reqs := as.reqs[start:]
	transport := as.cl.lastFaultUs != startFaults || lastTransportErrUs >= invokeUs
	_ = transport
	switch op.Arg {
	case "create-topic", "delete-topic", "create-partitions", "alter-reassignments":
		api := map[string]string{"create-topic": "CreateTopics", "delete-topic": "DeleteTopics", "create-partitions": "CreatePartitions", "alter-reassignments": "AlterPartitionReassignments"}[op.Arg]
		var attempts []*adminReq
		for _, q := range reqs {
			if q.api == api {
				attempts = append(attempts, q)
			}
		}
		acked := false
		for _, q := range attempts {
			if q.applied && q.broker == q.controller && q.code == 0 && !q.missing {
				acked = true
			}
		}
		if err == nil && !acked {
			r.violate("C19.false-success", "%s(%s) reported success although no attempt was acknowledged by the controller (%d attempts: %s; Admin.Retry.Max=%d)", op.Arg, op.Topic, len(attempts), fmtAttempts(attempts), as.retryMax)
		}
		// delivered-and-acked but reported as failure
		for _, q := range attempts {
			if err != nil && q.applied && q.code == 0 && !q.missing && q.broker == q.controller && q.fault == "" && as.delivered(q) && q == attempts[len(attempts)-1] {
				r.violate("C19.false-failure", "%s(%s) failed with %v although its last attempt was acknowledged by the controller b%d", op.Arg, op.Topic, err, q.broker)
			}
		}
		for i, q := range attempts {
			if i+1 < len(attempts) && q.fault != "drop-before" && q.fault != "drop-after" && q.fault != "silence" && as.delivered(q) {
				if (q.code != int16(sarama.ErrNotController) || q.missing) && !(q.code == 0 && !q.missing) {
					r.violate("C19.retried-non-retriable", "%s(%s): attempt %d was answered with error %d (not NOT_CONTROLLER) by b%d, yet the operation was retried", op.Arg, op.Topic, i+1, q.code, q.broker)
				}
				if q.code == 0 && !q.missing {
					r.violate("C19.retried-non-retriable", "%s(%s): attempt %d succeeded on b%d, yet the operation was sent again", op.Arg, op.Topic, i+1, q.broker)
				}
			}
		}
		if len(attempts) > 0 {
			last := attempts[len(attempts)-1]
			if as.delivered(last) && last.fault != "drop-after" && last.fault != "silence" {
				backoffUs := int64(as.c.Config.AdminBackoffMs) * 1000
				gaveUpEarly := err != nil && backoffUs > 0 && retUs-last.us < backoffUs
				if last.code == int16(sarama.ErrNotController) && !last.missing && len(attempts) < as.retryMax+1 && !isNotController(err) && gaveUpEarly {
					r.violate("C19.not-retried", "%s(%s): b%d answered NOT_CONTROLLER on attempt %d of %d allowed (Admin.Retry.Max=%d), but the operation gave up with %v only %d us later, without waiting the retry back-off of %d us for another attempt", op.Arg, op.Topic, last.broker, len(attempts), as.retryMax+1, as.retryMax, err, retUs-last.us, backoffUs)
				}
				if last.code == int16(sarama.ErrNotController) && !last.missing && len(attempts) < as.retryMax+1 && isNotController(err) {
					r.violate("C19.not-retried", "%s(%s): b%d answered NOT_CONTROLLER on attempt %d of %d allowed (Admin.Retry.Max=%d), but the operation gave up with %v", op.Arg, op.Topic, last.broker, len(attempts), as.retryMax+1, as.retryMax, err)
				}
				if err == nil && (last.code != 0 || last.missing) {
					r.violate("C19.error-swallowed", "%s(%s): the last response carried error %d (missing item=%v) but the operation reported success", op.Arg, op.Topic, last.code, last.missing)
				}
				if code, ok := kerrOf(err); ok && last.code != 0 && !last.missing && code != last.code && op.Arg != "alter-reassignments" {
					r.violate("C19.error-swallowed", "%s(%s): broker answered error %d but the caller got %d", op.Arg, op.Topic, last.code, code)
				}
			}
		}
		if len(attempts) > as.retryMax+1 {
			r.violate("C19.retried-non-retriable", "%s(%s): %d attempts, more than Admin.Retry.Max+1 = %d", op.Arg, op.Topic, len(attempts), as.retryMax+1)
		}
	case "delete-records":
		var sent []*adminReq
		for _, q := range reqs {
			if q.api == "DeleteRecords" {
				sent = append(sent, q)
			}
		}
		seen := map[int32]int{}
		anyErr := false
		for _, q := range sent {
			for _, p := range q.partitions {
				seen[p]++
				mp := as.cl.part(op.Topic, p)
				if mp != nil && !as.wasLeader(mp, q.broker) {
					r.violate("C19.wrong-broker", "delete-records: partition %s/%d sent to b%d which never led it", op.Topic, p, q.broker)
				}
			}
			for _, code := range q.items {
				if code != 0 {
					anyErr = true
				}
			}
			if q.missing || q.fault == "drop-before" || q.fault == "drop-after" || q.fault == "silence" {
				anyErr = true
			}
		}
		if err == nil {
			for _, p := range op.Ints {
				if seen[int32(p)] != 1 {
					r.violate("C19.wrong-broker", "delete-records(%s): partition %d was sent %d times although the operation reported success", op.Topic, p, seen[int32(p)])
				}
			}
			if anyErr {
				r.violate("C19.error-swallowed", "delete-records(%s): a broker reported an error (or an incomplete response) but the operation reported success: %s", op.Topic, fmtAttempts(sent))
			}
		}
	case "list-group-offsets", "describe-groups", "delete-group":
		api := map[string]string{"list-group-offsets": "OffsetFetch", "describe-groups": "DescribeGroups", "delete-group": "DeleteGroups"}[op.Arg]
		for _, q := range reqs {
			if q.api == api && q.broker != q.coordinator && !as.wasCoordinator(q.broker) {
				r.violate("C19.wrong-broker", "%s sent to b%d which was never the group's coordinator", op.Arg, q.broker)
			}
		}
		var last *adminReq
		for _, q := range reqs {
			if q.api == api {
				last = q
			}
		}
		if last != nil && as.delivered(last) && last.fault != "drop-after" && last.fault != "silence" {
			bad := last.missing
			for _, code := range last.items {
				if code != 0 {
					bad = true
				}
			}
			switch op.Arg {
			case "delete-group":
				if err == nil && bad {
					r.violate("C19.error-swallowed", "delete-group: coordinator answered %v (missing=%v) but the operation reported success", last.items, last.missing)
				}
			case "list-group-offsets":
				if err == nil && fetched != nil {
					for _, p := range op.Ints {
						blk := fetched.GetBlock(op.Topic, int32(p))
						key := fmt.Sprintf("%s/%d", op.Topic, p)
						want := int64(-1)
						if so := as.gm.stored(op.Args[0], key); so != nil {
							want = so.offset
						}
						if blk != nil && blk.Err == sarama.ErrNoError && last.items[key] == 0 && blk.Offset != want {
							r.violate("C19.error-swallowed", "list-group-offsets: %s reported %d, the coordinator stores %d", key, blk.Offset, want)
						}
					}
				}
			case "describe-groups":
				// (the operation may span several coordinators: an incomplete or failed answer of any of them
				// explains a shorter list - the descriptions carry their own error codes)
				for _, q := range reqs {
					if q.api != api {
						continue
					}
					if q.missing || q.fault == "drop-after" || q.fault == "silence" || !as.delivered(q) {
						bad = true
					}
				}
				if err == nil && len(described) != len(op.Args) && !bad {
					r.violate("C19.error-swallowed", "describe-groups(%v) returned %d descriptions", op.Args, len(described))
				}
			}
		}
	}
}

func (as *adminScen) delivered(q *adminReq) bool {
	if q.conn == nil {
		return false
	}
	q.conn.mu.Lock()
	defer q.conn.mu.Unlock()
	return q.conn.deliveredCorr[q.corr] && !q.conn.sawError
}

func fmtAttempts(a []*adminReq) string {
	var s []string
	for _, q := range a {
		s = append(s, fmt.Sprintf("b%d(controller b%d) code=%d missing=%v fault=%q", q.broker, q.controller, q.code, q.missing, q.fault))
	}
	return strings.Join(s, "; ")
}

func (as *adminScen) wasLeader(mp *mpart, b int32) bool {
	return as.leaderEver[mp.key()][b] || mp.leader == b
}

func (as *adminScen) wasCoordinator(b int32) bool {
	for _, c := range as.gm.coordHist {
		if c == b {
			return true
		}
	}
	return as.gm.coordinator == b
}

// serve handles admin APIs (kernel goroutine) and records the request log.
func (as *adminScen) serve(br *mbroker, c *simConn, h reqHeader, body interface{}, fault *cf.Fault) ([]byte, bool, bool) {
	cl := as.cl
	q := &adminReq{api: apiName(h.api), broker: br.id, controller: cl.controller, coordinator: as.gm.coordinator, conn: c, corr: h.corr, us: cl.k.nowUs(), e: cl.k.stamp(), items: map[string]int16{}}
	if fault != nil {
		q.fault = fault.Do
	} else if as.curFault == "drop-after" || as.curFault == "silence" {
		q.fault = as.curFault // applied, but the response never reaches the client
	}
	codeFor := func(def int16) int16 {
		if fault != nil && fault.Do == "errcode" {
			cl.noteFault("admin-errcode")
			return int16(fault.Code)
		}
		return def
	}
	missing := fault != nil && fault.Do == "missing-block"
	if missing {
		cl.noteFault("incomplete-response")
		q.missing = true
	}
	isController := br.id == cl.controller
	var resp interface{}
	switch r := body.(type) {
	case *sarama.CreateTopicsRequest:
		res := &sarama.CreateTopicsResponse{Version: r.Version, TopicErrors: map[string]*sarama.TopicError{}}
		var names []string
		for t := range r.TopicDetails {
			names = append(names, t)
		}
		sort.Strings(names)
		for _, t := range names {
			code := int16(0)
			switch {
			case !isController:
				code = int16(sarama.ErrNotController)
			default:
				code = codeFor(0)
				if code == 0 && cl.topics[t] != nil {
					code = int16(sarama.ErrTopicAlreadyExists)
				}
			}
			if code == 0 {
				cl.timedFault(&ruleState{f: &cf.Fault{Do: "topic-add", Topic: t, N: int(r.TopicDetails[t].NumPartitions)}})
				q.applied = true
			}
			q.code = code
			q.items[t] = code
			if !missing {
				res.TopicErrors[t] = &sarama.TopicError{Err: sarama.KError(code)}
			}
		}
		resp = res
	case *sarama.DeleteTopicsRequest:
		res := &sarama.DeleteTopicsResponse{Version: r.Version, TopicErrorCodes: map[string]sarama.KError{}}
		for _, t := range r.Topics {
			code := int16(0)
			switch {
			case !isController:
				code = int16(sarama.ErrNotController)
			default:
				code = codeFor(0)
				if code == 0 && cl.topics[t] == nil {
					code = int16(sarama.ErrUnknownTopicOrPartition)
				}
			}
			if code == 0 {
				delete(cl.topics, t)
				cl.bumpView()
				q.applied = true
			}
			q.code = code
			q.items[t] = code
			if !missing {
				res.TopicErrorCodes[t] = sarama.KError(code)
			}
		}
		resp = res
	case *sarama.CreatePartitionsRequest:
		res := &sarama.CreatePartitionsResponse{TopicPartitionErrors: map[string]*sarama.TopicPartitionError{}}
		for t, tp := range r.TopicPartitions {
			code := int16(0)
			switch {
			case !isController:
				code = int16(sarama.ErrNotController)
			default:
				code = codeFor(0)
				if code == 0 && cl.topics[t] == nil {
					code = int16(sarama.ErrUnknownTopicOrPartition)
				} else if code == 0 && int(tp.Count) <= len(cl.topics[t].parts) {
					code = int16(sarama.ErrInvalidPartitions)
				}
			}
			if code == 0 {
				for len(cl.topics[t].parts) < int(tp.Count) {
					cl.timedFault(&ruleState{f: &cf.Fault{Do: "part-add", Topic: t}})
				}
				q.applied = true
			}
			q.code = code
			q.items[t] = code
			if !missing {
				res.TopicPartitionErrors[t] = &sarama.TopicPartitionError{Err: sarama.KError(code)}
			}
		}
		resp = res
	case *sarama.AlterPartitionReassignmentsRequest:
		res := &sarama.AlterPartitionReassignmentsResponse{Version: r.Version}
		// (a response without per-partition results is not a behaviour of real brokers for this API)
		missing, q.missing = false, false
		if !isController {
			res.ErrorCode = sarama.ErrNotController
			q.code = int16(sarama.ErrNotController)
		} else if code := codeFor(0); code != 0 {
			if fault.AllParts || code == int16(sarama.ErrNotController) {
				res.ErrorCode = sarama.KError(code) // NOT_CONTROLLER is a request-level verdict
			}
			q.code = code
		}
		for t, ps := range sarama.VerifReassignBlocks(r) {
			// a verdict that is not request-wide refuses one partition only (the one the fault names, if it was
			// asked for) and accepts the others: the operation as a whole is still refused
			only := int32(-1)
			if q.code != 0 && res.ErrorCode == 0 && fault != nil && !fault.AllParts {
				if _, asked := ps[fault.Partition]; asked && len(ps) > 1 {
					only = fault.Partition
				}
			}
			for p := range ps {
				pc := int16(0)
				if q.code != 0 && res.ErrorCode == 0 && (only < 0 || p == only) {
					pc = q.code
				}
				if !missing {
					res.AddError(t, p, sarama.KError(pc), nil)
				}
			}
		}
		if q.code == 0 {
			q.applied = true
		}
		if res.ErrorCode != 0 {
			q.missing = false // the top-level verdict is still on the wire
		}
		resp = res
	case *sarama.DeleteRecordsRequest:
		res := &sarama.DeleteRecordsResponse{Topics: map[string]*sarama.DeleteRecordsResponseTopic{}}
		for t, rt := range r.Topics {
			rtp := &sarama.DeleteRecordsResponseTopic{Partitions: map[int32]*sarama.DeleteRecordsResponsePartition{}}
			var ps []int32
			for p := range rt.PartitionOffsets {
				ps = append(ps, p)
			}
			sort.Slice(ps, func(i, j int) bool { return ps[i] < ps[j] })
			for _, p := range ps {
				q.partitions = append(q.partitions, p)
				mp := cl.part(t, p)
				code := int16(0)
				switch {
				case mp == nil:
					code = int16(sarama.ErrUnknownTopicOrPartition)
				case mp.leader != br.id:
					code = int16(sarama.ErrNotLeaderForPartition)
				case fault != nil && fault.Do == "errcode" && (fault.AllParts || fault.Partition == p):
					code = int16(fault.Code)
					cl.noteFault("admin-errcode")
				}
				if code == 0 {
					if off := rt.PartitionOffsets[p]; off > mp.logStart && off <= mp.leo {
						mp.logStart = off
					}
					q.applied = true
				}
				q.items[fmt.Sprintf("%s/%d", t, p)] = code
				if fault != nil && fault.Do == "missing-partition" && p == ps[len(ps)-1] {
					// incomplete response: the entry of one requested partition is absent
					q.missing = true
					cl.noteFault("incomplete-response")
					continue
				}
				rtp.Partitions[p] = &sarama.DeleteRecordsResponsePartition{LowWatermark: 0, Err: sarama.KError(code)}
			}
			if !missing {
				res.Topics[t] = rtp
			}
		}
		resp = res
	case *sarama.DescribeGroupsRequest:
		res := &sarama.DescribeGroupsResponse{}
		for _, gname := range r.Groups {
			gd := &sarama.GroupDescription{GroupId: gname, State: "Empty"}
			if br.id != as.gm.coordinator {
				gd.Err = sarama.ErrNotCoordinatorForConsumer
			} else {
				gd.Err = sarama.KError(codeFor(0))
			}
			q.items[gname] = int16(gd.Err)
			if !missing {
				res.Groups = append(res.Groups, gd)
			}
		}
		resp = res
	case *sarama.DeleteGroupsRequest:
		res := &sarama.DeleteGroupsResponse{GroupErrorCodes: map[string]sarama.KError{}}
		for _, gname := range r.Groups {
			code := int16(0)
			if br.id != as.gm.coordinator {
				code = int16(sarama.ErrNotCoordinatorForConsumer)
			} else {
				code = codeFor(0)
			}
			if code == 0 {
				delete(as.gm.offsets, gname)
				q.applied = true
			}
			q.items[gname] = code
			if !missing {
				res.GroupErrorCodes[gname] = sarama.KError(code)
			}
		}
		resp = res
	case *sarama.OffsetFetchRequest:
		as.reqs = append(as.reqs, q)
		b, handled, noResp := as.gm.serve(br, c, h, body, fault)
		for _, tp := range sarama.VerifOffsetFetchPartitions(r) {
			key := fmt.Sprintf("%s/%d", tp.Topic, tp.Partition)
			if br.id != as.gm.coordinator {
				q.items[key] = int16(sarama.ErrNotCoordinatorForConsumer)
			} else if fault != nil && fault.Do == "errcode" {
				q.items[key] = int16(fault.Code)
			}
		}
		return b, handled, noResp
	default:
		return as.gm.serve(br, c, h, body, fault)
	}
	as.reqs = append(as.reqs, q)
	cl.k.logf("b%d %s controller=b%d coordinator=b%d -> items=%v missing=%v", br.id, q.api, cl.controller, as.gm.coordinator, q.items, q.missing)
	out, err := sarama.VerifEncodeResponse(h.corr, resp)
	if err != nil {
		panic(fmt.Sprintf("model: encode %T: %v", resp, err))
	}
	return out, true, false
}

package main

import (
	"errors"
	"fmt"
	"sort"
	"strings"
	"sync"
	"time"

	"github.com/Shopify/sarama"
	"github.com/Shopify/sarama/mocks"

	"simverif/cf"
)

func init() { scenarios["mocks"] = scenMocks }

type recReporter struct {
	mu    sync.Mutex
	calls []string
}

func (r *recReporter) Errorf(f string, a ...interface{}) {
	r.mu.Lock()
	r.calls = append(r.calls, fmt.Sprintf(f, a...))
	r.mu.Unlock()
}

func (r *recReporter) count(sub string) int {
	r.mu.Lock()
	defer r.mu.Unlock()
	n := 0
	for _, c := range r.calls {
		if strings.Contains(c, sub) {
			n++
		}
	}
	return n
}

var errScripted = errors.New("scripted failure")
var errChecker = errors.New("checker refuses")

// expectation kinds: 0 success, 1 fail, 2 checker(ok)+success, 3 checker(ok)+fail, 4 checker(refuses)+success, 5 checker(refuses)+fail
func scenMocks(r *run) {
	c := r.c
	k := r.k
	watchdog(r, func(dump string) {
		r.violate("C20.double-outcome", "mock scenario did not finish; parked: %v", blockedSaramaFrames(dump))
	})
	r.res.Ops = len(c.Workload)
	switch c.Config.X["kind"] {
	case 0:
		mockAsync(r)
	case 1:
		mockSync(r)
	default:
		mockConsumer(r)
	}
	r.res.Nontrivial = len(c.Workload) > 2
	k.nowUs()
	close(r.stopWatch)
	k.halt()
}

type mockMsg struct {
	id       int
	sender   int
	msg      *sarama.ProducerMessage
	outcomes []string
	succOff  int64
	part     int32
	procIdx  int // processing index learnt from a recording checker (-1 unknown)
}

func mockConfig(c *cf.Case) *sarama.Config {
	cfg := mocks.NewTestConfig()
	cfg.Producer.Return.Successes = true
	cfg.Producer.Return.Errors = true
	cfg.ChannelBufferSize = c.Config.ChanBuf
	cfg.Producer.Partitioner = partitionerCtor(c.Config.Partitioner)
	if c.Config.Partitioner == "bad" {
		cfg.Producer.Partitioner = func(t string) sarama.Partitioner {
			return &refusingPartitioner{inner: sarama.NewRoundRobinPartitioner(t)}
		}
	}
	return cfg
}

// refusingPartitioner fails for designated messages (those whose id is 2 modulo 5) and is a round-robin otherwise.
type refusingPartitioner struct{ inner sarama.Partitioner }

func (p *refusingPartitioner) RequiresConsistency() bool { return false }
func (p *refusingPartitioner) Partition(m *sarama.ProducerMessage, n int32) (int32, error) {
	if id := mockMsgID(m); id >= 0 && id%5 == 2 {
		return 0, fmt.Errorf("partitioner refuses m%d", id)
	}
	return p.inner.Partition(m, n)
}

func mockMsgID(m *sarama.ProducerMessage) int {
	if m == nil || m.Value == nil {
		return -1
	}
	b, err := m.Value.Encode()
	if err != nil || len(b) < 2 || b[0] != 'm' {
		return -1
	}
	id := 0
	for _, ch := range b[1:] {
		if ch < '0' || ch > '9' {
			return -1
		}
		id = id*10 + int(ch-'0')
	}
	return id
}

func mockRefused(c *cf.Case, id int) bool { return c.Config.Partitioner == "bad" && id >= 0 && id%5 == 2 }

func mockAsync(r *run) {
	c := r.c
	k := r.k
	rep := &recReporter{}
	cfg := mockConfig(c)
	mp := mocks.NewAsyncProducer(rep, cfg)
	nparts := int32(c.Config.X["partitions"])
	mp.SetDefaultPartitions(nparts)
	var script []int
	for _, op := range c.Workload {
		if op.Op == "expect" {
			script = append(script, op.N)
		}
	}
	var mu sync.Mutex
	procOrder := []*mockMsg{}
	byPtr := map[*sarama.ProducerMessage]*mockMsg{}
	// kind 6: a succeeding checker during which another goroutine adds one more (success) expectation - the new
	// expectation goes to the end of the queue, whatever the mock is doing at that moment
	lateDone := map[int]chan struct{}{}
	for i, kind := range script {
		if kind == 6 {
			lateDone[i] = make(chan struct{})
		}
	}
	for i, kind := range script {
		i, kind := i, kind
		var chk mocks.MessageChecker
		if kind >= 2 {
			chk = func(m *sarama.ProducerMessage) error {
				mu.Lock()
				if mm := byPtr[m]; mm != nil {
					mm.procIdx = i
					procOrder = append(procOrder, mm)
				}
				mu.Unlock()
				if kind == 6 {
					go func() {
						mp.ExpectInputAndSucceed()
						close(lateDone[i])
					}()
					time.Sleep(time.Microsecond) // let it try while this message is still being handled
					return nil
				}
				if kind >= 4 {
					return errChecker
				}
				return nil
			}
		}
		switch kind {
		case 0:
			mp.ExpectInputAndSucceed()
		case 1:
			mp.ExpectInputAndFail(errScripted)
		case 2, 4, 6:
			mp.ExpectInputWithMessageCheckerFunctionAndSucceed(chk)
		default:
			mp.ExpectInputWithMessageCheckerFunctionAndFail(chk, errScripted)
		}
	}
	// the reference queue grows accordingly (kind 6 occurs with a single sender only: message i takes expectation i)
	nInitial := len(script)
	for i := 0; i < len(script); i++ {
		if script[i] == 6 {
			script = append(script, 0)
		}
	}
	var msgs []*mockMsg
	bySender := map[int][]*mockMsg{}
	for _, op := range c.Workload {
		if op.Op != "send" {
			continue
		}
		m := &mockMsg{id: op.ID, sender: op.Actor, procIdx: -1}
		m.msg = &sarama.ProducerMessage{Topic: "t", Value: sarama.StringEncoder(fmt.Sprintf("m%d", op.ID)), Partition: op.Partition}
		if op.KeyLen >= 0 {
			m.msg.Key = sarama.StringEncoder(fmt.Sprintf("k%d", op.KeyID))
		}
		byPtr[m.msg] = m
		msgs = append(msgs, m)
		bySender[op.Actor] = append(bySender[op.Actor], m)
	}
	var succOrder []*mockMsg
	done := make(chan struct{})
	go func() {
		defer close(done)
		succ, errs := mp.Successes(), mp.Errors()
		for succ != nil || errs != nil {
			select {
			case m, ok := <-succ:
				if !ok {
					succ = nil
					continue
				}
				mu.Lock()
				if mm := byPtr[m]; mm != nil {
					mm.outcomes = append(mm.outcomes, "success")
					mm.succOff, mm.part = m.Offset, m.Partition
					succOrder = append(succOrder, mm)
				} else {
					r.violate("C20.double-outcome", "mock async producer: success for a message that was not submitted")
				}
				mu.Unlock()
			case e, ok := <-errs:
				if !ok {
					errs = nil
					continue
				}
				mu.Lock()
				if mm := byPtr[e.Msg]; mm != nil {
					mm.outcomes = append(mm.outcomes, "error:"+e.Err.Error())
				}
				mu.Unlock()
			}
		}
	}()
	var wg sync.WaitGroup
	var senders []int
	for s := range bySender {
		senders = append(senders, s)
	}
	sort.Ints(senders)
	for _, s := range senders {
		ms := bySender[s]
		wg.Add(1)
		go func() {
			defer wg.Done()
			for i, m := range ms {
				mp.Input() <- m.msg
				k.logf("sent m%d", m.id)
				if ch := lateDone[i]; ch != nil && len(senders) == 1 && !mockRefused(c, m.id) {
					select {
					case <-ch: // the late expectation is in the queue before anything else is submitted
					case <-time.After(time.Second):
					}
				}
			}
		}()
	}
	wg.Wait()
	_ = mp.Close()
	<-done
	k.logf("script=%v", script)
	for _, m := range msgs {
		k.logf("m%d sender=%d proc=%d outcomes=%v part=%d off=%d", m.id, m.sender, m.procIdx, m.outcomes, m.part, m.succOff)
	}
	k.logf("reports=%v", rep.calls)
	// ---- reference model: FIFO of expectations ----
	// (a late expectation exists only if the message that triggers it was processed)
	{
		fin := script[:nInitial]
		for i := 0; i < len(fin) && i < len(msgs); i++ {
			if fin[i] == 6 && !mockRefused(c, msgs[i].id) {
				fin = append(fin, 0)
			}
		}
		script = fin
	}
	n := len(msgs)
	handled := n
	if len(script) < n {
		handled = len(script)
	}
	withOutcome, refuses, prefused := 0, 0, 0
	single := len(senders) <= 1
	for i, m := range msgs {
		// expected outcome when the processing index is known
		idx := m.procIdx
		if idx < 0 && single {
			idx = i
		}
		if len(m.outcomes) > 1 {
			r.violate("C20.double-outcome", "mock async producer: message m%d received %d outcomes %v (expectation #%d)", m.id, len(m.outcomes), m.outcomes, idx)
		}
		if len(m.outcomes) >= 1 {
			withOutcome++
		}
		if mockRefused(c, m.id) {
			// its partitioner fails: if the message had an expectation, that error is its only outcome (the
			// checker is not consulted); without one it gets none (judged by the outcome count below)
			if len(m.outcomes) >= 1 {
				prefused++
				want := fmt.Sprintf("error:partitioner refuses m%d", m.id)
				if m.outcomes[0] != want {
					r.violate("C20.wrong-outcome-order", "mock async producer: message m%d could not be partitioned and must get %q, got %v", m.id, want, m.outcomes)
				}
			}
			continue
		}
		if idx >= 0 && idx < len(script) {
			kind := script[idx]
			want := "success"
			switch {
			case kind == 4 || kind == 5:
				want = "error:" + errChecker.Error()
				refuses++
			case kind == 1 || kind == 3:
				want = "error:" + errScripted.Error()
			}
			if len(m.outcomes) == 0 || m.outcomes[0] != want {
				r.violate("C20.wrong-outcome-order", "mock async producer: message m%d was processed as #%d and must get %q, got %v", m.id, idx, want, m.outcomes)
			}
		}
		if len(m.outcomes) > 0 && m.outcomes[0] == "success" && c.Config.Partitioner == "manual" && m.part != m.msg.Partition {
			r.violate("C20.partition-choice", "mock async producer: manual partitioner, message for partition %d reported on %d", m.msg.Partition, m.part)
		}
		if len(m.outcomes) > 0 && m.outcomes[0] == "success" && (m.part < 0 || m.part >= nparts) {
			r.violate("C20.partition-choice", "mock async producer: partition %d outside the configured %d partitions", m.part, nparts)
		}
	}
	if withOutcome != handled {
		r.violate("C20.double-outcome", "mock async producer: %d of %d messages with an expectation received an outcome", withOutcome, handled)
	}
	for i, m := range succOrder {
		if i > 0 && m.succOff <= succOrder[i-1].succOff {
			r.violate("C20.offset-sequence", "mock async producer: success offsets not increasing: %d after %d", m.succOff, succOrder[i-1].succOff)
		}
	}
	// reporter calls: exactly the deviations
	wantNoExp := 0
	if n > len(script) {
		wantNoExp = n - len(script)
	}
	if got := rep.count("No more expectation"); got != wantNoExp {
		r.violate("C20.reporter-calls", "mock async producer: %d messages without expectation but %d 'No more expectation' reports", wantNoExp, got)
	}
	wantLeft := 0
	if len(script) > n {
		wantLeft = 1
	}
	if got := rep.count("Expected to exhaust all expectations"); got != wantLeft {
		r.violate("C20.reporter-calls", "mock async producer: %d expectations left over but %d leftover reports (%v)", len(script)-n, got, rep.calls)
	} else if wantLeft == 1 && rep.count(fmt.Sprintf("but %d are left", len(script)-n)) != 1 {
		r.violate("C20.reporter-calls", "mock async producer: leftover report does not say %d are left: %v", len(script)-n, rep.calls)
	}
	if got := rep.count("Check function returned an error"); got != refuses {
		r.violate("C20.reporter-calls", "mock async producer: %d refusing checkers ran but %d checker reports", refuses, got)
	}
	if got := rep.count("Partitioner returned an error"); got != prefused {
		r.violate("C20.reporter-calls", "mock async producer: %d messages could not be partitioned but %d partitioner reports", prefused, got)
	}
	if extra := len(rep.calls) - wantNoExp - wantLeft - refuses - prefused; extra != 0 {
		r.violate("C20.reporter-calls", "mock async producer: %d unexpected reporter calls: %v", extra, rep.calls)
	}
}

func mockSync(r *run) {
	c := r.c
	rep := &recReporter{}
	cfg := mockConfig(c)
	sp := mocks.NewSyncProducer(rep, cfg)
	nparts := int32(c.Config.X["partitions"])
	sp.SetDefaultPartitions(nparts)
	var script []int
	for _, op := range c.Workload {
		if op.Op == "expect" {
			script = append(script, op.N)
		}
	}
	for _, kind := range script {
		kind := kind
		var chk mocks.MessageChecker
		if kind >= 2 {
			chk = func(m *sarama.ProducerMessage) error {
				if kind >= 4 {
					return errChecker
				}
				return nil
			}
		}
		switch kind {
		case 0:
			sp.ExpectSendMessageAndSucceed()
		case 1:
			sp.ExpectSendMessageAndFail(errScripted)
		case 2, 4:
			sp.ExpectSendMessageWithMessageCheckerFunctionAndSucceed(chk)
		default:
			sp.ExpectSendMessageWithMessageCheckerFunctionAndFail(chk, errScripted)
		}
	}
	next := 0 // next expectation in the reference FIFO
	lastOff := int64(0)
	refuses, noExp, prefused := 0, 0, 0
	var sends []*cf.Op
	for i := range c.Workload {
		if c.Workload[i].Op == "send" {
			sends = append(sends, &c.Workload[i])
		}
	}
	insufficient := 0
	for si := 0; si < len(sends); si++ {
		op := sends[si]
		mk := func(op *cf.Op) *sarama.ProducerMessage {
			m := &sarama.ProducerMessage{Topic: "t", Value: sarama.StringEncoder(fmt.Sprintf("m%d", op.ID)), Partition: op.Partition}
			if op.KeyLen >= 0 {
				m.Key = sarama.StringEncoder(fmt.Sprintf("k%d", op.KeyID))
			}
			return m
		}
		if op.N > 1 {
			// SendMessages: the batch takes len(batch) expectations (if there are enough); the first
			// scripted failure is the batch's result, messages before it got offsets
			n := op.N
			if si+n > len(sends) {
				n = len(sends) - si
			}
			var batch []*sarama.ProducerMessage
			for j := 0; j < n; j++ {
				batch = append(batch, mk(sends[si+j]))
			}
			err := sp.SendMessages(batch)
			r.k.logf("SendMessages x%d from m%d -> %v", n, op.ID, err)
			si += n - 1
			if len(script)-next < n {
				insufficient++
				if err == nil {
					r.violate("C20.wrong-outcome-order", "mock sync producer: SendMessages of %d messages with %d expectations left returned success", n, len(script)-next)
				}
				continue
			}
			var want error
			okBefore := n
			wantText := ""
			for j := 0; j < n; j++ {
				kind := script[next+j]
				if mockRefused(c, sends[si-(n-1)+j].ID) {
					wantText = fmt.Sprintf("partitioner refuses m%d", sends[si-(n-1)+j].ID)
					prefused++
				} else if kind >= 4 {
					want = errChecker
					refuses++
				} else if kind == 1 || kind == 3 {
					want = errScripted
				}
				if want != nil || wantText != "" {
					okBefore = j
					break
				}
			}
			next += n
			if wantText != "" {
				if err == nil || err.Error() != wantText {
					r.violate("C20.wrong-outcome-order", "mock sync producer: SendMessages batch starting at m%d must return %q, got %v", op.ID, wantText, err)
				}
				continue
			}
			if err != want {
				r.violate("C20.wrong-outcome-order", "mock sync producer: SendMessages batch starting at m%d must return %v, got %v", op.ID, want, err)
				continue
			}
			for j := 0; j < okBefore; j++ {
				if batch[j].Offset <= lastOff {
					r.violate("C20.offset-sequence", "mock sync producer: batch message %d got offset %d after %d", j, batch[j].Offset, lastOff)
				}
				lastOff = batch[j].Offset
			}
			continue
		}
		m := mk(op)
		part, off, err := sp.SendMessage(m)
		r.k.logf("SendMessage m%d -> %d %d %v", op.ID, part, off, err)
		if next >= len(script) {
			noExp++
			if err == nil {
				r.violate("C20.wrong-outcome-order", "mock sync producer: message m%d has no expectation but SendMessage returned success", op.ID)
			}
			continue
		}
		kind := script[next]
		next++
		if mockRefused(c, op.ID) {
			prefused++
			if wantText := fmt.Sprintf("partitioner refuses m%d", op.ID); err == nil || err.Error() != wantText {
				r.violate("C20.wrong-outcome-order", "mock sync producer: message m%d could not be partitioned and must get %q, got %v", op.ID, wantText, err)
			}
			continue
		}
		var want error
		switch {
		case kind >= 4:
			want = errChecker
			refuses++
		case kind == 1 || kind == 3:
			want = errScripted
		}
		if err != want {
			r.violate("C20.wrong-outcome-order", "mock sync producer: message m%d is #%d and must get %v, got %v", op.ID, next-1, want, err)
			continue
		}
		if err == nil {
			if off <= lastOff {
				r.violate("C20.offset-sequence", "mock sync producer: offset %d after %d", off, lastOff)
			}
			lastOff = off
			if part != m.Partition {
				r.violate("C20.partition-choice", "mock sync producer: SendMessage returned partition %d but the partitioner chose %d", part, m.Partition)
			}
			if c.Config.Partitioner == "manual" && m.Partition != op.Partition {
				r.violate("C20.partition-choice", "mock sync producer: manual partitioner, message for partition %d sent to %d", op.Partition, m.Partition)
			}
			if m.Partition < 0 || m.Partition >= nparts {
				r.violate("C20.partition-choice", "mock sync producer: partition %d outside the configured %d partitions", m.Partition, nparts)
			}
		}
	}
	_ = sp.Close()
	wantLeft := 0
	if next < len(script) {
		wantLeft = 1
	}
	if got := rep.count("Expected to exhaust all expectations"); got != wantLeft {
		r.violate("C20.reporter-calls", "mock sync producer: %d expectations left over but %d leftover reports", len(script)-next, got)
	}
	if got := rep.count("No more expectation"); got != noExp {
		r.violate("C20.reporter-calls", "mock sync producer: %d sends without expectation but %d reports", noExp, got)
	}
	if got := rep.count("Insufficient expectations"); got != insufficient {
		r.violate("C20.reporter-calls", "mock sync producer: %d batches without enough expectations but %d reports", insufficient, got)
	}
	if got := rep.count("Check function returned an error"); got != refuses {
		r.violate("C20.reporter-calls", "mock sync producer: %d refusing checkers but %d reports", refuses, got)
	}
	if got := rep.count("Partitioner returned an error"); got != prefused {
		r.violate("C20.reporter-calls", "mock sync producer: %d messages could not be partitioned but %d partitioner reports", prefused, got)
	}
	if extra := len(rep.calls) - wantLeft - noExp - refuses - insufficient - prefused; extra != 0 {
		r.violate("C20.reporter-calls", "mock sync producer: %d unexpected reporter calls: %v", extra, rep.calls)
	}
}

func mockConsumer(r *run) {
	c := r.c
	k := r.k
	rep := &recReporter{}
	cfg := mocks.NewTestConfig()
	cfg.ChannelBufferSize = 256
	small := false
	if v, ok := c.Config.X["consumerChanBuf"]; ok && v < 256 {
		cfg.ChannelBufferSize = v
		small = true // yields cannot be made up front: a yielder goroutine per consumed partition feeds the reader
	}
	mc := mocks.NewConsumer(rep, cfg)
	type pstate struct {
		pc       *mocks.PartitionConsumer
		yields   []string // "m<id>" or "e<id>"
		consumed bool
		expOff   int64
		drainM, drainE bool
	}
	parts := map[int32]*pstate{}
	var order []int32
	wantReports := 0
	for _, op := range c.Workload {
		switch op.Op {
		case "expect-consume":
			if parts[op.Partition] == nil {
				parts[op.Partition] = &pstate{pc: mc.ExpectConsumePartition("t", op.Partition, op.Offset), expOff: op.Offset}
				order = append(order, op.Partition)
				if opInt(&op, 0, 0) == 1 {
					parts[op.Partition].pc.ExpectMessagesDrainedOnClose()
					parts[op.Partition].drainM = true
				}
				if opInt(&op, 1, 0) == 1 {
					parts[op.Partition].pc.ExpectErrorsDrainedOnClose()
					parts[op.Partition].drainE = true
				}
			}
		case "yield":
			if ps := parts[op.Partition]; ps != nil {
				ps.yields = append(ps.yields, fmt.Sprintf("m%d", op.ID))
				if !small {
					ps.pc.YieldMessage(&sarama.ConsumerMessage{Value: []byte(fmt.Sprintf("m%d", op.ID))})
				}
			}
		case "yield-error":
			if ps := parts[op.Partition]; ps != nil {
				ps.yields = append(ps.yields, fmt.Sprintf("e%d", op.ID))
				if !small {
					ps.pc.YieldError(fmt.Errorf("e%d", op.ID))
				}
			}
		}
	}
	var wg sync.WaitGroup
	for _, op := range c.Workload {
		if op.Op != "consume" {
			continue
		}
		ps := parts[op.Partition]
		pc, err := mc.ConsumePartition("t", op.Partition, op.Offset)
		if ps == nil {
			wantReports++ // no expectations for that partition
			if err == nil {
				r.violate("C20.reporter-calls", "mock consumer: ConsumePartition for an unexpected partition %d succeeded", op.Partition)
			}
			continue
		}
		if ps.consumed {
			if err == nil {
				r.violate("C20.reporter-calls", "mock consumer: partition %d consumed twice without error", op.Partition)
			}
			continue
		}
		ps.consumed = true
		if ps.expOff != mocks.AnyOffset && ps.expOff != op.Offset {
			wantReports++
		}
		if err != nil {
			r.violate("C20.reporter-calls", "mock consumer: ConsumePartition(%d) failed: %v", op.Partition, err)
			continue
		}
		wg.Add(1)
		closeMode := op.N
		leaveM, leaveE := opInt(&op, 0, 0), opInt(&op, 1, 0)
		if small {
			leaveM, leaveE = 0, 0 // everything yielded is read (an abandoned yielder would block for ever)
			ys := ps.yields
			pcs := ps.pc
			wg.Add(1)
			go func() {
				defer wg.Done()
				for _, y := range ys {
					if y[0] == 'm' {
						pcs.YieldMessage(&sarama.ConsumerMessage{Value: []byte(y)})
					}
				}
			}()
			wg.Add(1)
			go func() {
				defer wg.Done()
				for _, y := range ys {
					if y[0] == 'e' {
						pcs.YieldError(fmt.Errorf("%s", y))
					}
				}
			}()
		}
		{
			nm, ne := 0, 0
			for _, y := range ps.yields {
				if y[0] == 'm' {
					nm++
				} else {
					ne++
				}
			}
			if leaveM > nm {
				leaveM = nm
			}
			if leaveE > ne {
				leaveE = ne
			}
			// the first Close of this partition consumer (its own or the parent's) reports what was left
			if ps.drainM && leaveM > 0 {
				wantReports++
			}
			if ps.drainE && leaveE > 0 {
				wantReports++
			}
		}
		go func() {
			defer wg.Done()
			var gotM, gotE []string
			last := int64(-1)
			nm, ne := 0, 0
			for _, y := range ps.yields {
				if y[0] == 'm' {
					nm++
				} else {
					ne++
				}
			}
			for i := 0; i < nm-leaveM; i++ {
				select {
				case m := <-pc.Messages():
					gotM = append(gotM, string(m.Value))
					if hw := pc.HighWaterMarkOffset(); hw < m.Offset+1 {
						r.violate("C20.offset-sequence", "mock consumer: partition %d delivered offset %d while its high-water mark reads %d", op.Partition, m.Offset, hw)
					}
					if last >= 0 && m.Offset != last+1 {
						r.violate("C20.offset-sequence", "mock consumer: partition %d offset %d after %d (not consecutive)", op.Partition, m.Offset, last)
					}
					last = m.Offset
					if m.Topic != "t" || m.Partition != op.Partition {
						r.violate("C20.partition-choice", "mock consumer: message labelled %s/%d on partition %d", m.Topic, m.Partition, op.Partition)
					}
				case <-time.After(time.Second):
					r.violate("C20.wrong-outcome-order", "mock consumer: partition %d delivered %d of %d yielded messages", op.Partition, len(gotM), nm)
					i = nm
				}
			}
			for i := 0; i < ne-leaveE; i++ {
				select {
				case e := <-pc.Errors():
					gotE = append(gotE, e.Err.Error())
				case <-time.After(time.Second):
					i = ne
				}
			}
			var wantM, wantE []string
			for _, y := range ps.yields {
				if y[0] == 'm' {
					wantM = append(wantM, y)
				} else {
					wantE = append(wantE, y)
				}
			}
			wantM, wantE = wantM[:len(wantM)-leaveM], wantE[:len(wantE)-leaveE]
			if fmt.Sprint(gotM) != fmt.Sprint(wantM) {
				r.violate("C20.wrong-outcome-order", "mock consumer: partition %d yielded %v, consumer saw %v", op.Partition, wantM, gotM)
			}
			if fmt.Sprint(gotE) != fmt.Sprint(wantE) {
				r.violate("C20.wrong-outcome-order", "mock consumer: partition %d yielded errors %v, consumer saw %v", op.Partition, wantE, gotE)
			}
			if nm > 0 && leaveM == 0 && pc.HighWaterMarkOffset() != last+1 {
				r.violate("C20.offset-sequence", "mock consumer: partition %d high-water mark %d, last offset %d", op.Partition, pc.HighWaterMarkOffset(), last)
			}
			if closeMode == 1 {
				err := pc.Close()
				if leaveE == 0 && err != nil {
					r.violate("C20.reporter-calls", "mock consumer: Close of a partition consumer whose errors were all read returned %v", err)
				}
				if leaveE > 0 {
					if ce, ok := err.(sarama.ConsumerErrors); !ok || len(ce) != leaveE {
						r.violate("C20.wrong-outcome-order", "mock consumer: Close of partition %d with %d unread errors returned %v", op.Partition, leaveE, err)
					}
				}
				// a closed partition consumer hands out nothing more
				select {
				case m, ok := <-pc.Messages():
					if ok {
						r.violate("C20.wrong-outcome-order", "mock consumer: partition %d delivered %q after Close", op.Partition, m.Value)
					}
				default:
					r.violate("C20.wrong-outcome-order", "mock consumer: Messages() of partition %d still open after Close", op.Partition)
				}
			}
			k.logf("partition %d consumed %d messages %d errors", op.Partition, len(gotM), len(gotE))
		}()
	}
	wg.Wait()
	_ = mc.Close()
	for _, p := range order {
		if !parts[p].consumed {
			wantReports++ // expectations set but never consumed
		}
	}
	if len(rep.calls) != wantReports {
		r.violate("C20.reporter-calls", "mock consumer: %d deviations but %d reporter calls: %v", wantReports, len(rep.calls), rep.calls)
	}
}

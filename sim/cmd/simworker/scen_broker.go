package main

import (
	"fmt"
	"strconv"
	"sync"
	"time"

	"github.com/Shopify/sarama"

	"simverif/cf"
)

func init() { scenarios["broker"] = scenBroker }

type bcall struct {
	op       *cf.Op
	token    int
	invokeUs int64
	retUs    int64
	returned bool
	err      error
	echo     int   // token echoed by the response (-1 none)
	arrived  int   // arrival index at the server on the connection (-1 never)
	corr     int32
	faulted  string // fault applied by the server to this very request
	afterClose bool // Close had been invoked before the call returned
	afterCloseInvoke bool
	conn *simConn
	writeUs int64 // when the request frame was completely written
}

type brokerScen struct {
	r     *run
	c     *cf.Case
	cl    *cluster
	calls map[int]*bcall
	mu    sync.Mutex
	faultIdx int // arrival index of the first connection-level fault (-1 none)
	arrivals int
	maxOpen  int
	closeInvoked bool
	closeUs int64
	outstandingMax int
	resetFault bool
}

func tokenTopic(tok int) string { return "tok" + strconv.Itoa(tok) }

func scenBroker(r *run) {
	c := r.c
	k := r.k
	cl := newCluster(k, c)
	bs := &brokerScen{r: r, c: c, cl: cl, calls: map[int]*bcall{}, faultIdx: -1}
	cfg := baseConfig(c, cl)
	bs.maxOpen = cfg.Net.MaxOpenRequests
	if err := cfg.Validate(); err != nil {
		r.finish("infra", "generated config invalid: "+err.Error())
	}
	// server side: echo handlers and bookkeeping
	cl.extra = bs.serve
	cl.onRequest = bs.onRequest
	cl.onGarbage = func(conn *simConn, h reqHeader, kind string) {}
	onWireWrite = bs.onWrite
	watchdog(r, bs.onHang)
	r.res.Ops = len(c.Workload)

	b := sarama.NewBroker(cl.seedAddrs()[0])
	if err := b.Open(cfg); err != nil {
		k.logf("Open: %v", err)
	}
	if ok, err := b.Connected(); !ok {
		k.logf("not connected: %v", err)
	}
	byActor := map[int][]*cf.Op{}
	var actors []int
	var closeOp *cf.Op
	for i := range c.Workload {
		op := &c.Workload[i]
		switch op.Op {
		case "call":
			if _, ok := byActor[op.Actor]; !ok {
				actors = append(actors, op.Actor)
			}
			byActor[op.Actor] = append(byActor[op.Actor], op)
		case "close":
			closeOp = op
		}
	}
	var wg sync.WaitGroup
	for _, a := range actors {
		ops := byActor[a]
		wg.Add(1)
		go func() {
			defer wg.Done()
			for _, op := range ops {
				if op.ThinkUs > 0 {
					time.Sleep(time.Duration(op.ThinkUs) * time.Microsecond)
				}
				bs.doCall(b, op)
			}
		}()
	}
	if closeOp != nil {
		wg.Add(1)
		go func() {
			defer wg.Done()
			time.Sleep(time.Duration(closeOp.ThinkUs) * time.Microsecond)
			bs.closeInvoked = true
			bs.closeUs = k.nowUs()
			k.logf("Broker.Close() (racing)")
			err := b.Close()
			k.logf("Broker.Close returned: %v", err)
		}()
	}
	wg.Wait()
	if !bs.closeInvoked {
		bs.closeInvoked = true
		k.logf("Broker.Close()")
		err := b.Close()
		k.logf("Broker.Close returned: %v", err)
	}
	// closing twice is harmless
	_ = b.Close()
	bs.judge()
	k.nowUs()
	close(r.stopWatch)
	k.halt()
}

func (bs *brokerScen) doCall(b *sarama.Broker, op *cf.Op) {
	k := bs.r.k
	call := &bcall{op: op, token: op.ID, echo: -1, arrived: -1, invokeUs: k.nowUs(), afterCloseInvoke: bs.closeInvoked}
	bs.mu.Lock()
	bs.calls[op.ID] = call
	bs.mu.Unlock()
	k.logf("call %d %s invoke", op.ID, op.Arg)
	switch op.Arg {
	case "offsetfetch":
		req := &sarama.OffsetFetchRequest{Version: 1, ConsumerGroup: "g" + strconv.Itoa(op.ID)}
		req.AddPartition(tokenTopic(op.ID), 0)
		res, err := b.FetchOffset(req)
		call.err = err
		if err == nil {
			for t, ps := range res.Blocks {
				for _, blk := range ps {
					call.echo = int(blk.Offset)
					if t != tokenTopic(int(blk.Offset)) {
						call.echo = -2
					}
				}
			}
		}
	default:
		res, err := b.GetMetadata(&sarama.MetadataRequest{Topics: []string{tokenTopic(op.ID)}})
		call.err = err
		if err == nil {
			for _, t := range res.Topics {
				if n, e := strconv.Atoi(t.Name[3:]); e == nil {
					call.echo = n
				}
			}
		}
	}
	call.returned = true
	if call.err != nil && call.conn != nil {
		// the request was written but its promise failed: no longer awaiting a response
		call.conn.mu.Lock()
		call.conn.failed++
		call.conn.mu.Unlock()
	}
	call.retUs = k.nowUs()
	call.afterClose = bs.closeInvoked
	k.logf("call %d returned echo=%d err=%v", op.ID, call.echo, call.err)
	if call.err == nil && call.echo != call.token {
		bs.r.violate("C14.wrong-response", "call %d (%s) returned the response of request %d", call.token, op.Arg, call.echo)
	}
}

// onWrite runs in the client goroutine that completed a request frame.
func (bs *brokerScen) onWrite(c *simConn, h reqHeader, frame []byte) {
	if _, _, body, err := sarama.VerifDecodeRequest(frame); err == nil {
		bs.mu.Lock()
		if call := bs.calls[bs.tokenOf(body)]; call != nil {
			call.conn = c
			call.writeUs = bs.r.k.nowUs()
		}
		bs.mu.Unlock()
	}
	c.mu.Lock()
	out := c.written - c.answered - c.failed
	judge := !c.sawError && !c.poisoned
	c.mu.Unlock()
	if !judge {
		// the connection already failed from the client's point of view: nothing is awaiting a response
		return
	}
	if out > bs.outstandingMax {
		bs.outstandingMax = out
	}
	if out > bs.maxOpen {
		bs.r.violateClass("C14.inflight-exceeded", fmt.Sprintf("excess=%d;", out-bs.maxOpen), "%d requests written and not yet answered on one connection, Net.MaxOpenRequests=%d", out, bs.maxOpen)
	}
}

func (bs *brokerScen) tokenOf(body interface{}) int {
	switch r := body.(type) {
	case *sarama.MetadataRequest:
		if len(r.Topics) == 1 && len(r.Topics[0]) > 3 {
			n, _ := strconv.Atoi(r.Topics[0][3:])
			return n
		}
	case *sarama.OffsetFetchRequest:
		n, _ := strconv.Atoi(r.ConsumerGroup[1:])
		return n
	}
	return -1
}

// onRequest: a request arrived at the server (kernel goroutine).
func (bs *brokerScen) onRequest(c *simConn, h reqHeader, body interface{}, fault *cf.Fault) {
	idx := bs.arrivals
	bs.arrivals++
	fd := ""
	if fault != nil {
		fd = fault.Do
		if fd == "delay" {
			if fault.Us >= int64(bs.c.Config.ReadTimeoutMs)*1000 {
				fd = "silence" // answered only after the client's read time-out
			} else {
				fd = ""
			}
		}
		if fd == "drop-before" || fd == "drop-after" {
			bs.resetFault = true
		}
		switch fd {
		case "wrong-corr", "oversize", "badlen", "truncate", "short-header", "close":
			c.mu.Lock()
			c.poisoned = true
			c.mu.Unlock()
		}
		switch fd {
		case "wrong-corr", "oversize", "badlen", "truncate", "short-header", "close", "drop-before", "drop-after", "silence", "stall":
			if bs.faultIdx < 0 {
				bs.faultIdx = idx
			}
		}
	}
	tok := bs.tokenOf(body)
	bs.mu.Lock()
	call := bs.calls[tok]
	bs.mu.Unlock()
	if call != nil {
		call.arrived = idx
		call.corr = h.corr
		call.faulted = fd
	}
}

// serve answers the echo requests (kernel goroutine).
func (bs *brokerScen) serve(br *mbroker, c *simConn, h reqHeader, body interface{}, fault *cf.Fault) ([]byte, bool, bool) {
	tok := bs.tokenOf(body)
	switch r := body.(type) {
	case *sarama.OffsetFetchRequest:
		res := &sarama.OffsetFetchResponse{Version: r.Version}
		res.AddBlock(tokenTopic(tok), 0, &sarama.OffsetFetchResponseBlock{Offset: int64(tok)})
		out, err := sarama.VerifEncodeResponse(h.corr, res)
		if err != nil {
			panic(err)
		}
		bs.r.k.logf("b%d c%d OffsetFetch token=%d corr=%d", br.id, c.id, tok, h.corr)
		return out, true, false
	}
	return nil, false, false
}

func (bs *brokerScen) judge() {
	r := bs.r
	var ids []int
	for id := range bs.calls {
		ids = append(ids, id)
	}
	sortInts(ids)
	for _, id := range ids {
		call := bs.calls[id]
		if !call.returned {
			continue
		}
		badly := call.faulted == "wrong-corr" || call.faulted == "oversize" || call.faulted == "badlen" || call.faulted == "truncate" || call.faulted == "short-header" || call.faulted == "close" || call.faulted == "drop-before" || call.faulted == "drop-after" || call.faulted == "silence" || call.faulted == "stall"
		if call.err == nil && badly {
			rule := "C14.wrong-response"
			if call.faulted == "wrong-corr" {
				rule = "C14.mismatch-delivered"
			}
			r.violate(rule, "call %d returned a response although the server answered its request with %s", id, call.faulted)
		}
		if call.err == nil && bs.faultIdx >= 0 && (call.arrived < 0 || call.arrived > bs.faultIdx) {
			r.violate("C14.call-hang-after-failure", "call %d succeeded although the connection had failed at request #%d (this call arrived as #%d)", id, bs.faultIdx, call.arrived)
		}
		// (a reset may legitimately destroy responses that were still in flight; an orderly close may not)
		// (the obligation exists only if the response reached the client before the earliest possible read
		// deadline of this call: request written + Net.ReadTimeout; network latency alone can exceed it)
		inTime := false
		if call.conn != nil {
			call.conn.mu.Lock()
			d, ok := call.conn.deliveredAt[call.corr]
			call.conn.mu.Unlock()
			inTime = ok && d < call.writeUs+int64(bs.c.Config.ReadTimeoutMs)*1000
		}
		if !inTime && call.err != nil {
			r.probe("response-later-than-read-deadline")
		}
		if call.err != nil && inTime && !call.afterClose && !bs.resetFault && (bs.faultIdx < 0 || (call.arrived >= 0 && call.arrived < bs.faultIdx)) && call.arrived >= 0 {
			// an error for a request the server answered properly, with no Close in sight
			r.violate("C14.wrong-response", "call %d failed with %v although the server answered request #%d properly and no connection fault preceded it (first fault at #%d)", id, call.err, call.arrived, bs.faultIdx)
		}
	}
	nf := 0
	for _, n := range r.faults {
		nf += n
	}
	r.res.Nontrivial = nf > 0 || bs.outstandingMax > 1
	r.probes["max-outstanding-"+strconv.Itoa(bs.outstandingMax)]++
}

func sortInts(x []int) {
	for i := 1; i < len(x); i++ {
		for j := i; j > 0 && x[j] < x[j-1]; j-- {
			x[j], x[j-1] = x[j-1], x[j]
		}
	}
}

func (bs *brokerScen) onHang(dump string) {
	frames := blockedSaramaFrames(dump)
	var stuck []int
	for id, call := range bs.calls {
		if !call.returned {
			stuck = append(stuck, id)
		}
	}
	sortInts(stuck)
	if len(stuck) > 0 {
		bs.r.violate("C14.call-hang-after-failure", "calls %v did not return within the liveness bound (first connection fault at request #%d); parked: %v", stuck, bs.faultIdx, frames)
	} else {
		bs.r.violate("C12.close-hang", "Broker.Close did not return; parked: %v", frames)
		if bs.c.Property != "C12" {
			bs.r.violate(propRule("hang"), "Broker.Close did not return; parked: %v", frames)
		}
	}
	bs.judge()
}

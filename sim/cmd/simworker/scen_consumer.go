package main

import (
	"bytes"
	"fmt"
	"strconv"
	"sync"
	"time"

	"github.com/Shopify/sarama"

	"simverif/cf"
)

func init() { scenarios["consumer"] = scenConsumer }

type consIcpt struct {
	idx    int
	panics bool
	cs     *consScen
}

func (c *consIcpt) OnConsume(m *sarama.ConsumerMessage) {
	if c.idx == 0 && c.cs != nil {
		c.cs.mu.Lock()
		c.cs.intercepted = append(c.cs.intercepted, icptRec{m.Topic, m.Partition, m.Offset})
		c.cs.mu.Unlock()
	}
	m.Headers = append(m.Headers, &sarama.RecordHeader{Key: []byte("icpt"), Value: []byte(strconv.Itoa(c.idx))})
	if c.panics {
		panic("consumer interceptor panics")
	}
}

type reader struct {
	op        *cf.Op
	mp        *mpart
	start     int64 // resolved start offset (-1 unknown yet)
	delivered int
	lastOff   int64
	errs      []error
	outOfRange bool
	done      bool
	closed    bool
	startErr  error
	expectedN int
}

type consScen struct {
	r       *run
	c       *cf.Case
	cl      *cluster
	fm      *fetchModel
	readers []*reader
	committed bool
	nIcpt   int
	lastAppendUs int64
	mu          sync.Mutex
	intercepted []icptRec
}

type icptRec struct {
	topic     string
	partition int32
	offset    int64
}

// visible returns the application-visible records with offset >= start in the current log.
func (cs *consScen) visible(mp *mpart, start int64) []*mrec {
	aborted := map[*mbatch]bool{}
	if cs.committed {
		for _, a := range mp.aborted {
			for _, b := range mp.batches {
				if b.wb.pid == a.pid && b.wb.txn && !b.wb.control && b.first >= a.first && b.first < a.last {
					aborted[b] = true
				}
			}
		}
	}
	limit := mp.leo
	if cs.committed {
		limit = mp.lso()
	}
	var out []*mrec
	for _, b := range mp.batches {
		if b.wb.control || aborted[b] {
			continue
		}
		for _, r := range b.recs {
			if r.offset >= start && r.offset < limit {
				out = append(out, r)
			}
		}
	}
	return out
}

func scenConsumer(r *run) {
	c := r.c
	k := r.k
	cl := newCluster(k, c)
	fm := newFetchModel(cl, c.Net.Seed^0xfe7c)
	cl.fetch = fm
	fm.loadLogs(c)
	cs := &consScen{r: r, c: c, cl: cl, fm: fm, committed: c.Config.ReadCommitted, nIcpt: c.Config.ConsInterceptors}
	for _, lg := range c.Cluster.Logs {
		for _, b := range lg.Batches {
			if b.AtUs > cs.lastAppendUs {
				cs.lastAppendUs = b.AtUs
			}
		}
	}
	cfg := baseConfig(c, cl)
	cfg.Consumer.Return.Errors = true
	if c.Config.FetchDefault > 0 {
		cfg.Consumer.Fetch.Default = int32(c.Config.FetchDefault)
	}
	cfg.Consumer.Fetch.Max = int32(c.Config.FetchMax)
	if c.Config.FetchMin > 0 {
		cfg.Consumer.Fetch.Min = int32(c.Config.FetchMin)
	}
	if c.Config.MaxWaitMs > 0 {
		cfg.Consumer.MaxWaitTime = ms(c.Config.MaxWaitMs)
	}
	if c.Config.MaxProcessingMs > 0 {
		cfg.Consumer.MaxProcessingTime = ms(c.Config.MaxProcessingMs)
	}
	cfg.Consumer.Retry.Backoff = ms(c.Config.ConsBackoffMs)
	if c.Config.ReadCommitted {
		cfg.Consumer.IsolationLevel = sarama.ReadCommitted
	}
	for i := 0; i < cs.nIcpt; i++ {
		cfg.Consumer.Interceptors = append(cfg.Consumer.Interceptors, &consIcpt{idx: i, panics: c.Config.PanicIcpt == i+1, cs: cs})
	}
	if err := cfg.Validate(); err != nil {
		r.finish("infra", "generated config invalid: "+err.Error())
	}
	watchdog(r, cs.onHang)
	r.res.Ops = len(c.Workload)

	consumer, err := sarama.NewConsumer(cl.seedAddrs(), cfg)
	if err != nil {
		k.logf("NewConsumer failed: %v", err)
		close(r.stopWatch)
		k.halt()
		return
	}
	var wg sync.WaitGroup
	for i := range c.Workload {
		op := &c.Workload[i]
		if op.Op != "consume" {
			continue
		}
		rd := &reader{op: op, mp: cl.part(op.Topic, op.Partition), start: -1, lastOff: -1}
		cs.readers = append(cs.readers, rd)
		wg.Add(1)
		go func() {
			defer wg.Done()
			cs.runReader(consumer, rd)
		}()
	}
	wg.Wait()
	k.logf("consumer.Close()")
	if err := consumer.Close(); err != nil {
		k.logf("consumer.Close: %v", err)
	}
	cs.judge(true)
	time.Sleep(cfg.Net.DialTimeout + cfg.Net.ReadTimeout + time.Second)
	k.nowUs()
	close(r.stopWatch)
	k.halt()
}

func opInt(op *cf.Op, i int, def int) int {
	if i < len(op.Ints) {
		return op.Ints[i]
	}
	return def
}

func (cs *consScen) runReader(consumer sarama.Consumer, rd *reader) {
	k := cs.r.k
	op := rd.op
	if op.ThinkUs > 0 {
		cs.r.nap(time.Duration(op.ThinkUs) * time.Microsecond)
	}
	pace, stallEvery, stallUs := opInt(op, 0, 0), opInt(op, 1, 0), opInt(op, 2, 0)
	closeAfter, closeMode, closeAtUs := opInt(op, 3, -1), opInt(op, 4, 0), opInt(op, 5, 0)
	key := rd.mp.key()
	leoBefore, logStartBefore := rd.mp.leo, rd.mp.logStart
	if cs.r.closing() {
		rd.done = true
		return
	}
	k.logf("ConsumePartition %s offset=%d", key, op.Offset)
	pc, err := consumer.ConsumePartition(op.Topic, op.Partition, op.Offset)
	if err != nil {
		rd.startErr = err
		rd.done = true
		k.logf("ConsumePartition %s failed: %v", key, err)
		if err == sarama.ErrOffsetOutOfRange {
			// legal only if the literal offset was outside [logStart, leo] at some point of the call
			if op.Offset >= 0 && op.Offset >= logStartBefore && op.Offset <= leoBefore {
				cs.r.violate("C03.not-prefix", "ConsumePartition(%s, %d) refused with OffsetOutOfRange although the log covers [%d, %d]", key, op.Offset, logStartBefore, leoBefore)
			}
			if op.Offset < 0 {
				cs.r.violate("C03.not-prefix", "ConsumePartition(%s, %d) refused with OffsetOutOfRange for a symbolic start offset", key, op.Offset)
			}
		}
		return
	}
	switch {
	case op.Offset >= 0:
		rd.start = op.Offset
	case op.Offset == sarama.OffsetOldest:
		rd.start = cs.fm.answered[key+"|-2"]
	default:
		rd.start = cs.fm.answered[key+"|-1"]
	}
	k.logf("consuming %s from %d", key, rd.start)
	var closeTimer <-chan time.Time
	if closeAtUs > 0 {
		d := time.Duration(int64(closeAtUs)-k.nowUs()) * time.Microsecond
		if d < 0 {
			d = 0
		}
		closeTimer = time.After(d)
	}
	msgs, errs := pc.Messages(), pc.Errors()
	poll := time.NewTicker(50 * time.Millisecond)
	defer poll.Stop()
	reachedEnd := func() bool {
		if k.nowUs() <= cs.lastAppendUs {
			return false
		}
		return rd.delivered >= len(cs.visible(rd.mp, rd.start))
	}
loop:
	for {
		if closeAfter >= 0 && rd.delivered >= closeAfter {
			break
		}
		if reachedEnd() {
			break
		}
		select {
		case m, ok := <-msgs:
			if !ok {
				k.logf("%s messages closed by the consumer", key)
				rd.closed = true
				break loop
			}
			cs.onMessage(rd, m)
			if stallEvery > 0 && rd.delivered%stallEvery == 0 {
				cs.r.probe("reader-stalled-beyond-max-processing-time")
				cs.r.nap(time.Duration(stallUs) * time.Microsecond)
			} else if pace > 0 {
				cs.r.nap(time.Duration(pace) * time.Microsecond)
			}
		case e, ok := <-errs:
			if !ok {
				errs = nil
				continue
			}
			rd.errs = append(rd.errs, e.Err)
			k.logf("%s error event: %v", key, e.Err)
			if e.Err == sarama.ErrOffsetOutOfRange {
				rd.outOfRange = true
			}
		case <-closeTimer:
			k.logf("%s close timer", key)
			break loop
		case <-cs.r.closeNow:
			break loop
		case <-poll.C:
		}
	}
	rd.done = true
	if rd.closed {
		// drain the errors channel until closed
		for errs != nil {
			e, ok := <-errs
			if !ok {
				break
			}
			rd.errs = append(rd.errs, e.Err)
			if e.Err == sarama.ErrOffsetOutOfRange {
				rd.outOfRange = true
			}
		}
		if !rd.outOfRange {
			cs.r.violate("C03.no-progress", "%s: the partition consumer shut itself down without an OffsetOutOfRange error (errors seen: %v)", key, rd.errs)
		}
		// closing twice / after self-shutdown must be harmless
		_ = pc.Close()
		return
	}
	if closeMode == 1 {
		k.logf("%s Close()", key)
		// the API requires the Messages channel to be drained around Close when messages may be pending
		stop := make(chan struct{})
		go func() {
			for {
				select {
				case m, ok := <-msgs:
					if !ok {
						return
					}
					cs.onMessage(rd, m)
				case <-stop:
					return
				}
			}
		}()
		_ = pc.Close()
		close(stop)
	} else {
		k.logf("%s AsyncClose()", key)
		pc.AsyncClose()
		for msgs != nil || errs != nil {
			select {
			case m, ok := <-msgs:
				if !ok {
					msgs = nil
					continue
				}
				cs.onMessage(rd, m)
			case _, ok := <-errs:
				if !ok {
					errs = nil
				}
			}
		}
	}
	rd.closed = true
	k.logf("%s closed", key)
	if cs.c.Property == "C12" || opInt(op, 6, 0) == 1 {
		// second close must be harmless
		pc.AsyncClose()
		_ = pc.Close()
	}
}

func (cs *consScen) onMessage(rd *reader, m *sarama.ConsumerMessage) {
	k := cs.r.k
	key := rd.mp.key()
	exp := cs.visible(rd.mp, rd.start)
	i := rd.delivered
	rd.delivered++
	k.logf("%s deliver @%d", key, m.Offset)
	// interceptor trail (C18)
	var trail []string
	var hdrs []*sarama.RecordHeader
	for _, h := range m.Headers {
		if string(h.Key) == "icpt" {
			trail = append(trail, string(h.Value))
		} else {
			hdrs = append(hdrs, h)
		}
	}
	if cs.nIcpt > 0 || len(trail) > 0 {
		want := make([]string, cs.nIcpt)
		for j := range want {
			want[j] = strconv.Itoa(j)
		}
		if fmt.Sprint(trail) != fmt.Sprint(want) {
			cs.r.violate("C18.consumer-trail", "%s@%d: consumer interceptors applied %v, expected exactly %v", key, m.Offset, trail, want)
		}
	}
	if m.Offset <= rd.lastOff {
		cs.r.violate("C03.not-prefix", "%s: offset %d delivered after %d (duplicate or reordering)", key, m.Offset, rd.lastOff)
	}
	rd.lastOff = m.Offset
	if i >= len(exp) {
		cs.r.violate(cs.rulePrefix(rd, m.Offset, nil), "%s: delivered offset %d but only %d visible records exist from %d", key, m.Offset, len(exp), rd.start)
		return
	}
	e := exp[i]
	if m.Offset != e.offset {
		cs.r.violate(cs.rulePrefix(rd, m.Offset, e), "%s: delivery #%d has offset %d, expected %d (start %d)", key, i, m.Offset, e.offset, rd.start)
		return
	}
	if !bytes.Equal(m.Key, e.key) || !bytes.Equal(m.Value, e.val) {
		cs.r.violate("C03.not-prefix", "%s@%d: key/value altered: got key=%q value=%q, log has key=%q value=%q", key, m.Offset, trunc(m.Key), trunc(m.Value), trunc(e.key), trunc(e.val))
	}
	if len(hdrs) != len(e.headers) {
		cs.r.violate("C03.not-prefix", "%s@%d: %d headers delivered, log has %d", key, m.Offset, len(hdrs), len(e.headers))
	} else {
		for j := range hdrs {
			if !bytes.Equal(hdrs[j].Key, e.headers[j].k) || !bytes.Equal(hdrs[j].Value, e.headers[j].v) {
				cs.r.violate("C03.not-prefix", "%s@%d: header %d altered", key, m.Offset, j)
			}
		}
	}
	if e.tsMs >= 0 {
		if m.Timestamp.UnixMilli() != e.tsMs {
			cs.r.violate("C03.not-prefix", "%s@%d: timestamp %d, log has %d", key, m.Offset, m.Timestamp.UnixMilli(), e.tsMs)
		}
	} else if !m.Timestamp.IsZero() && m.Timestamp.UnixMilli() != -1 {
		cs.r.violate("C03.not-prefix", "%s@%d: timestamp %v for a record without timestamp", key, m.Offset, m.Timestamp)
	}
	if m.Topic != rd.op.Topic || m.Partition != rd.op.Partition {
		cs.r.violate("C03.not-prefix", "%s: message labelled %s/%d", key, m.Topic, m.Partition)
	}
}

// rulePrefix picks the most specific rule for a wrong offset: transactional rules when the
// delivered record is an aborted/control one, the generic prefix rule otherwise.
func (cs *consScen) rulePrefix(rd *reader, got int64, want *mrec) string {
	rec := findOffset(rd.mp, got)
	if rec != nil {
		if rec.batch.wb.control {
			return "C11.control-delivered"
		}
		if cs.committed && rec.batch.wb.txn {
			for _, a := range rd.mp.aborted {
				if a.pid == rec.batch.wb.pid && rec.offset >= a.first && rec.offset < a.last {
					return "C11.aborted-delivered"
				}
			}
		}
	}
	if want != nil && want.batch.wb.txn && got > want.offset {
		return "C11.committed-missing"
	}
	return "C03.not-prefix"
}

func (cs *consScen) judge(final bool) {
	cs.mu.Lock()
	for _, ir := range cs.intercepted {
		mp := cs.cl.part(ir.topic, ir.partition)
		if mp == nil {
			continue
		}
		rec := findOffset(mp, ir.offset)
		if rec == nil {
			cs.r.violate("C18.consumer-trail", "consumer interceptor invoked for %s@%d, which is no record of the log", mp.key(), ir.offset)
			continue
		}
		if rec.batch.wb.control {
			cs.r.violate("C18.consumer-trail", "consumer interceptor invoked for the control record %s@%d, which is never delivered", mp.key(), ir.offset)
		}
		if cs.committed && rec.batch.wb.txn {
			for _, a := range mp.aborted {
				if a.pid == rec.batch.wb.pid && rec.offset >= a.first && rec.offset < a.last {
					cs.r.violate("C18.consumer-trail", "consumer interceptor invoked for %s@%d, a record of an aborted transaction that a read-committed consumer never delivers", mp.key(), ir.offset)
				}
			}
		}
	}
	cs.mu.Unlock()
	nf := 0
	for _, n := range cs.r.faults {
		nf += n
	}
	for _, rd := range cs.readers {
		if rd.startErr != nil || rd.start < 0 {
			continue
		}
		exp := cs.visible(rd.mp, rd.start)
		closeAfter := opInt(rd.op, 3, -1)
		closeAtUs := opInt(rd.op, 5, 0)
		if final && closeAfter < 0 && closeAtUs == 0 && !rd.outOfRange && !cs.r.closing() && rd.delivered < len(exp) {
			cs.r.violate(cs.progressRule(rd, exp), "%s: reader stopped with %d of %d visible records delivered", rd.mp.key(), rd.delivered, len(exp))
		}
		if rd.outOfRange {
			// legal only if the position really left the log
			cs.r.probe("offset-out-of-range-shutdown")
		}
	}
	cs.r.res.Nontrivial = nf > 0 || len(cs.readers) > 1 || cs.r.probes["reader-stalled-beyond-max-processing-time"] > 0
}

func (cs *consScen) progressRule(rd *reader, exp []*mrec) string {
	if rd.delivered < len(exp) {
		// stuck right before a control batch?
		next := exp[rd.delivered]
		for _, b := range rd.mp.batches {
			if b.wb.control && b.first < next.offset && (rd.lastOff < b.first) {
				return "C11.stuck-at-control"
			}
		}
	}
	return "C03.no-progress"
}

func (cs *consScen) onHang(dump string) {
	frames := blockedSaramaFrames(dump)
	stuck := false
	for _, rd := range cs.readers {
		if rd.done {
			continue
		}
		stuck = true
		if rd.start < 0 {
			cs.r.violate("C03.no-progress", "%s: ConsumePartition did not return within the liveness bound; parked: %v", rd.mp.key(), frames)
			continue
		}
		exp := cs.visible(rd.mp, rd.start)
		cs.r.violate(cs.progressRule(rd, exp), "%s: %d of %d visible records delivered (last offset %d) within the liveness bound of %d ms after faults stopped; errors seen %v; parked: %v", rd.mp.key(), rd.delivered, len(exp), rd.lastOff, cs.c.MaxSimMs, rd.errs, frames)
	}
	if !stuck {
		cs.r.violate("C12.close-hang", "consumer shutdown did not complete; parked: %v", frames)
		if cs.c.Property != "C12" {
			cs.r.violate(propRule("hang"), "consumer shutdown did not complete; parked: %v", frames)
		}
	}
	cs.judge(false)
}

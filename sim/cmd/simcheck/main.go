// simcheck is the orchestrator: it rebuilds the simulation worker from /repo's current tree,
// generates cases from VERIF_SEED, runs each case in a fresh worker process (16 wide),
// classifies, minimises and replays violations, and writes the evidence file.
package main

import (
	"syscall"
	"bytes"
	"context"
	"encoding/json"
	"fmt"
	"os"
	"os/exec"
	"path/filepath"
	"sort"
	"strconv"
	"strings"
	"sync"
	"time"

	"simverif/cf"
	"simverif/gen"
)

const (
	verifDir = "/verif"
	goBin    = "/opt/veriftools/go1.26.8/bin/go"
)

// The registered checks always build /repo's working tree. VERIF_MUT_REPO is a development aid used only by
// mutcheck.sh: it points the build at a scratch worktree carrying a seeded change, with a private overlay,
// module file, evidence and replay directory, so that /repo and /verif/evidence are never touched by it.
var (
	buildDir = "/verif/build"
	repoDir  = "/repo"
	mutMode  = false
	outDir   = verifDir // evidence/ and replays/ live under it
)

func init() {
	if d := os.Getenv("VERIF_MUT_REPO"); d != "" {
		repoDir = d
		mutMode = true
		buildDir = fmt.Sprintf("/verif/build/mut.%d", os.Getpid())
		if b := os.Getenv("VERIF_MUT_BUILD"); b != "" {
			buildDir = b
		}
		outDir = buildDir
		os.MkdirAll(buildDir, 0o755)
	}
}

var workerBin = "/verif/build/simworker"
var privateBin bool

func goEnv() []string {
	env := os.Environ()
	env = append(env, "GOFLAGS=-mod=mod", "GOPROXY=off", "GOSUMDB=off", "GOTOOLCHAIN=local", "CGO_ENABLED=0", "GOEXPERIMENT=norandomizedheapbase64")
	return env
}

func die2(format string, a ...any) {
	fmt.Fprintf(os.Stderr, "INFRA: "+format+"\n", a...)
	if privateBin {
		os.Remove(fmt.Sprintf("%s.%d", workerBin, os.Getpid()))
	}
	os.Exit(2)
}

func buildWorker(race bool) string {
	gen := exec.Command("python3", filepath.Join(verifDir, "simrt/gen.py"), buildDir, repoDir, filepath.Join(verifDir, "sim/export/zz_verif_export.go"))
	if out, err := gen.CombinedOutput(); err != nil {
		die2("overlay generation failed: %v\n%s", err, out)
	}
	bin := workerBin
	if mutMode {
		bin = filepath.Join(buildDir, "simworker") // never the shared binary
	} else if privateBin {
		// a check run keeps its own copy: a concurrent build must not swap the binary under a running sweep
		bin = fmt.Sprintf("%s.%d", workerBin, os.Getpid())
	}
	args := []string{"build", "-overlay", filepath.Join(buildDir, "overlay.json")}
	if mutMode {
		mod, err := os.ReadFile(filepath.Join(verifDir, "sim/go.mod"))
		if err != nil {
			die2("go.mod: %v", err)
		}
		mod = bytes.Replace(mod, []byte("=> /repo"), []byte("=> "+repoDir), 1)
		os.WriteFile(filepath.Join(buildDir, "go.mod"), mod, 0o644)
		sum, _ := os.ReadFile(filepath.Join(verifDir, "sim/go.sum"))
		os.WriteFile(filepath.Join(buildDir, "go.sum"), sum, 0o644)
		args = append(args, "-modfile", filepath.Join(buildDir, "go.mod"))
	}
	args = append(args, "-o")
	if race {
		bin += "-race"
		args = append(args, bin, "-race")
	} else {
		args = append(args, bin)
	}
	args = append(args, "./cmd/simworker")
	cmd := exec.Command(goBin, args...)
	cmd.Dir = filepath.Join(verifDir, "sim")
	cmd.Env = goEnv()
	if race {
		cmd.Env = append(cmd.Env, "CGO_ENABLED=1")
	}
	if out, err := cmd.CombinedOutput(); err != nil {
		die2("worker build failed (the tree in /repo must compile): %v\n%s", err, out)
	}
	return bin
}

type outcome struct {
	c      *cf.Case
	res    *cf.Result
	crash  string // stderr of a dead worker
	infra  string
	spin   string // the library function both attempts were found spinning in at the real-time limit
	wallMs int64
}

// execCase runs one case in a fresh worker process.
func execCase(bin string, c *cf.Case, verbose bool) *outcome {
	data, _ := json.Marshal(c)
	o := &outcome{c: c}
	var spin0 []string
	for attempt := 0; attempt < 2; attempt++ {
		limit := 60 * time.Second
		if attempt > 0 {
			limit = 180 * time.Second // the machine may just have been busy
		}
		ctx, cancel := context.WithTimeout(context.Background(), limit)
		cmd := exec.CommandContext(ctx, bin)
		// at the limit the worker is asked for a goroutine dump (SIGQUIT) before it is killed: a worker that spins
		// inside the library without ever blocking (fake time cannot advance) is told apart from a slow machine
		cmd.Cancel = func() error { return cmd.Process.Signal(syscall.SIGQUIT) }
		cmd.WaitDelay = 10 * time.Second
		cmd.Stdin = bytes.NewReader(data)
		var stdout, stderr bytes.Buffer
		cmd.Stdout, cmd.Stderr = &stdout, &stderr
		// fixed, minimal environment: a run must be a pure function of the case file and the binary
		// (heap addresses - hence the iteration order of large pointer-keyed maps - depend on it)
		// (GOMAXPROCS=1 from the very start: with more Ps the runtime initialises on an arbitrary P and the
		// allocations made before main() land in a different mcache, shifting later addresses)
		cmd.Env = []string{"GOTRACEBACK=all", "GOMAXPROCS=1"}
		_ = verbose
		t0 := time.Now()
		err := cmd.Run()
		o.wallMs = time.Since(t0).Milliseconds()
		timedOut := ctx.Err() != nil
		cancel()
		line := bytes.TrimSpace(stdout.Bytes())
		if err == nil && len(line) > 0 {
			var res cf.Result
			if jerr := json.Unmarshal(line, &res); jerr == nil {
				o.res = &res
				o.infra = "" // (a first attempt that ran into the limit on a stalled machine is forgotten)
				return o
			}
			o.infra = "unparsable worker output: " + string(line[:min(len(line), 200)])
			return o
		}
		if timedOut {
			o.infra = "worker exceeded its wall clock limit (60 s, then 180 s)"
			fns := spinningIn(stderr.String())
			if attempt == 0 {
				spin0 = fns
			} else {
				// both attempts ended with the running goroutine inside the same library function: a busy loop
				// that never blocks (the simulator's clock cannot advance past it), not a slow machine
				// (all common frames are named, innermost first: which callee of the loop happens to be running differs)
				var common []string
				for _, fn := range fns {
					for _, g := range spin0 {
						if fn == g {
							common = append(common, fn)
							break
						}
					}
				}
				if len(common) > 0 {
					o.infra, o.spin, o.crash = "", strings.Join(common, " <- "), ""
					return o
				}
			}
			continue // retry once
		}
		se := stderr.String()
		if strings.Contains(se, "github.com/Shopify/sarama") && (strings.Contains(se, "panic:") || strings.Contains(se, "fatal error:")) {
			o.crash = se
			return o
		}
		o.infra = fmt.Sprintf("worker died: %v: %s", err, se[:min(len(se), 2000)])
		return o
	}
	return o
}

// spinningIn returns the github.com/Shopify/sarama functions on the stack of the goroutine that was running when the
// worker was sent SIGQUIT, innermost first (empty if that goroutine was not inside the library).
func spinningIn(dump string) []string {
	i := strings.Index(dump, "[running")
	if i < 0 {
		return nil
	}
	rest := dump[i:]
	if j := strings.Index(rest, "\n\ngoroutine "); j > 0 {
		rest = rest[:j]
	}
	var out []string
	for _, l := range strings.Split(rest, "\n") {
		if strings.HasPrefix(l, "main.") || strings.HasPrefix(l, "simverif/") {
			// a harness frame: whatever lies further out called into the harness, and the loop may be the harness's
			break
		}
		if !strings.HasPrefix(l, "github.com/Shopify/sarama.") || strings.HasPrefix(l, "github.com/Shopify/sarama.Verif") {
			continue
		}
		// "github.com/Shopify/sarama.(*T).method(0x..., ...)" or "github.com/Shopify/sarama.fn(...)": cut the arguments
		name := l
		if k := strings.LastIndex(l, "("); k > 0 {
			name = l[:k]
		}
		out = append(out, name)
	}
	return out
}

// violationsFor filters a result's violations to the rules of one property.
func violationsFor(prop string, o *outcome) []cf.Violation {
	var out []cf.Violation
	if o.crash != "" {
		out = append(out, cf.Violation{Rule: prop + ".panic", Detail: "worker process died: " + firstLines(o.crash, 30)})
		return out
	}
	if o.spin != "" {
		out = append(out, cf.Violation{Rule: prop + ".spin", Detail: "the worker never blocked again: at the real-time limit (60 s, and again after 180 s on a second attempt) its running goroutine was inside " + o.spin + " - a busy loop in the library (fake time cannot advance past it)"})
		return out
	}
	if o.res == nil {
		return nil
	}
	for _, v := range o.res.Violations {
		if strings.HasPrefix(v.Rule, prop+".") {
			out = append(out, v)
		}
	}
	return out
}

func firstLines(s string, n int) string {
	l := strings.Split(s, "\n")
	if len(l) > n {
		l = l[:n]
	}
	return strings.Join(l, "\n")
}

// ---- known findings ----

type finding struct {
	ID        string   `json:"id"`
	Property  string   `json:"property"`
	Rule      string   `json:"rule"`
	ClassAll  []string `json:"class_all,omitempty"`  // substrings that must all occur in the violation's class
	ClassNone []string `json:"class_none,omitempty"` // substrings that must not occur
	DetailAll []string `json:"detail_all,omitempty"`
	Config    map[string]string `json:"config,omitempty"` // required case-config predicates, e.g. {"retryMax":"0"}
	What      string   `json:"what"`
	Case      string   `json:"case,omitempty"`
}

type knownFile struct {
	Findings []finding `json:"findings"`
	Fixed    []string  `json:"fixed"`
}

func loadKnown() *knownFile {
	var k knownFile
	data, err := os.ReadFile(filepath.Join(verifDir, "known_findings.json"))
	if err != nil {
		return &k
	}
	if err := json.Unmarshal(data, &k); err != nil {
		die2("known_findings.json: %v", err)
	}
	return &k
}

func configValue(c *cf.Case, key string) string {
	switch key {
	case "retryMax":
		return strconv.Itoa(c.Config.RetryMax)
	case "idempotent":
		return strconv.FormatBool(c.Config.Idempotent)
	case "adminRetryMax":
		return strconv.Itoa(c.Config.AdminRetryMax)
	case "scenario":
		return c.Scenario
	case "sync":
		return strconv.FormatBool(c.Config.Sync)
	case "metaRetryMax":
		return strconv.Itoa(c.Config.MetaRetryMax)
	}
	return ""
}

func (k *knownFile) match(c *cf.Case, v cf.Violation) *finding {
	for i := range k.Findings {
		f := &k.Findings[i]
		if f.Rule != v.Rule {
			continue
		}
		ok := true
		for _, s := range f.ClassAll {
			if !strings.Contains(v.Class, s) {
				ok = false
			}
		}
		for _, s := range f.ClassNone {
			if strings.Contains(v.Class, s) {
				ok = false
			}
		}
		for _, s := range f.DetailAll {
			if !strings.Contains(v.Detail, s) {
				ok = false
			}
		}
		for key, want := range f.Config {
			if configValue(c, key) != want {
				ok = false
			}
		}
		if ok {
			return f
		}
	}
	return nil
}

// unknownViolation returns the first violation of the property not covered by a known finding.
func unknownViolation(k *knownFile, prop string, o *outcome, seen map[string]bool) *cf.Violation {
	vs := violationsFor(prop, o)
	for i := range vs {
		if f := k.match(o.c, vs[i]); f != nil {
			if seen != nil {
				seen[f.ID] = true
			}
			continue
		}
		return &vs[i]
	}
	return nil
}

// ---- parallel execution ----

func runMany(bin string, cases []*cf.Case, par int, each func(*outcome) bool) {
	var wg sync.WaitGroup
	var mu sync.Mutex
	stop := false
	ch := make(chan *cf.Case)
	for i := 0; i < par; i++ {
		wg.Add(1)
		go func() {
			defer wg.Done()
			for c := range ch {
				o := execCase(bin, c, false)
				mu.Lock()
				if !stop && !each(o) {
					stop = true
				}
				mu.Unlock()
			}
		}()
	}
	for _, c := range cases {
		mu.Lock()
		s := stop
		mu.Unlock()
		if s {
			break
		}
		ch <- c
	}
	close(ch)
	wg.Wait()
}

func seedFromEnv(def uint64) uint64 {
	if s := os.Getenv("VERIF_SEED"); s != "" {
		if v, err := strconv.ParseUint(s, 10, 64); err == nil {
			return v
		}
		if v, err := strconv.ParseInt(s, 10, 64); err == nil {
			return uint64(v)
		}
	}
	return def
}

func main() {
	if len(os.Args) < 2 {
		fmt.Fprintln(os.Stderr, "usage: simcheck check <prop> <quick|thorough> | replay <file> | gen <prop> <seed> | selftest [n] | build")
		os.Exit(2)
	}
	switch os.Args[1] {
	case "build":
		buildWorker(false)
	case "gen":
		seed, _ := strconv.ParseUint(os.Args[3], 10, 64)
		c := gen.Generate(os.Args[2], seed)
		out, _ := json.MarshalIndent(c, "", " ")
		fmt.Println(string(out))
	case "replay":
		os.Exit(cmdReplay(os.Args[2]))
	case "selftest":
		n := 64
		if len(os.Args) > 2 {
			n, _ = strconv.Atoi(os.Args[2])
		}
		os.Exit(cmdSelftest(n))
	case "check":
		tier := "quick"
		if len(os.Args) > 3 {
			tier = os.Args[3]
		}
		if t := os.Getenv("VERIF_TIER"); t == "quick" || t == "thorough" {
			tier = t
		}
		privateBin = true
		rc := cmdCheck(os.Args[2], tier)
		os.Remove(fmt.Sprintf("%s.%d", workerBin, os.Getpid()))
		os.Exit(rc)
	default:
		fmt.Fprintln(os.Stderr, "unknown command")
		os.Exit(2)
	}
}

func sortedKeys(m map[string]int) []string {
	var k []string
	for x := range m {
		k = append(k, x)
	}
	sort.Strings(k)
	return k
}

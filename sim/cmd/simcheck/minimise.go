package main

import (
	"fmt"
	"time"

	"simverif/cf"
)

// minimise shrinks a failing case by delta debugging over its explicit lists while the same
// oracle rule (not covered by a known finding) keeps failing. Candidates run in fresh processes.
func minimise(bin string, known *knownFile, prop string, c0 *cf.Case, rule string) *cf.Case {
	best := c0.Clone()
	execs := 0
	deadline := time.Now().Add(90 * time.Second)
	fails := func(c *cf.Case) bool {
		o := execCase(bin, c, false)
		for _, v := range violationsFor(prop, o) {
			if v.Rule == rule && known.match(c, v) == nil {
				return true
			}
		}
		return false
	}
	// tryAll evaluates candidates in parallel and returns the first (lowest index) that still fails.
	tryAll := func(cands []*cf.Case) *cf.Case {
		if len(cands) == 0 || execs > 600 || time.Now().After(deadline) {
			return nil
		}
		res := make([]bool, len(cands))
		idx := map[*cf.Case]int{}
		for i, c := range cands {
			idx[c] = i
		}
		execs += len(cands)
		runMany(bin, cands, 16, func(o *outcome) bool {
			for _, v := range violationsFor(prop, o) {
				if v.Rule == rule && known.match(o.c, v) == nil {
					res[idx[o.c]] = true
				}
			}
			return true
		})
		for i, ok := range res {
			if ok {
				return cands[i]
			}
		}
		return nil
	}
	_ = fails
	changed := true
	for round := 0; changed && round < 12; round++ {
		changed = false
		// drop fault rules (chunks, then singles)
		for chunk := len(best.Faults); chunk >= 1; chunk /= 2 {
			for {
				var cands []*cf.Case
				for start := 0; start < len(best.Faults); start += chunk {
					c := best.Clone()
					end := min(start+chunk, len(c.Faults))
					c.Faults = append(c.Faults[:start:start], c.Faults[end:]...)
					cands = append(cands, c)
				}
				if got := tryAll(cands); got != nil {
					best, changed = got, true
					continue
				}
				break
			}
		}
		// drop workload ops (never the structural ones)
		for chunk := len(best.Workload) / 2; chunk >= 1; chunk /= 2 {
			for {
				var cands []*cf.Case
				for start := 0; start < len(best.Workload); start += chunk {
					c := best.Clone()
					end := min(start+chunk, len(c.Workload))
					var w []cf.Op
					removed := 0
					for i, op := range c.Workload {
						if i >= start && i < end && removable(op) {
							removed++
							continue
						}
						w = append(w, op)
					}
					if removed == 0 {
						continue
					}
					c.Workload = w
					cands = append(cands, c)
				}
				if got := tryAll(cands); got != nil {
					best, changed = got, true
					continue
				}
				break
			}
		}
		// simplifications
		var cands []*cf.Case
		// (an always-first-case schedule would starve fair selects: "coin" is the simplest legal mode)
		if best.Sched.Mode == "yield" {
			c2 := best.Clone()
			c2.Sched.Mode, c2.Sched.YieldN = "coin", 0
			cands = append(cands, c2)
		}
		if best.Net.Model != "const" {
			c := best.Clone()
			c.Net.Model = "const"
			c.Net.MaxUs = c.Net.MinUs
			cands = append(cands, c)
		}
		if got := tryAll(cands); got != nil {
			best, changed = got, true
		}
		// zero think times, shrink payloads
		cands = nil
		{
			c := best.Clone()
			n := 0
			for i := range c.Workload {
				if c.Workload[i].ThinkUs != 0 && c.Workload[i].Op == "send" {
					c.Workload[i].ThinkUs = 0
					n++
				}
			}
			if n > 0 {
				cands = append(cands, c)
			}
			c2 := best.Clone()
			n = 0
			for i := range c2.Workload {
				if c2.Workload[i].ValLen > 8 {
					c2.Workload[i].ValLen = 8
					n++
				}
				if c2.Workload[i].Headers > 0 {
					c2.Workload[i].Headers = 0
					n++
				}
			}
			if n > 0 {
				cands = append(cands, c2)
			}
		}
		if got := tryAll(cands); got != nil {
			best, changed = got, true
		}
	}
	fmt.Printf("minimiser: %d executions; workload %d -> %d ops, faults %d -> %d\n", execs, len(c0.Workload), len(best.Workload), len(c0.Faults), len(best.Faults))
	return best
}

func removable(op cf.Op) bool {
	switch op.Op {
	case "close", "open", "start", "stop":
		return false
	}
	return true
}

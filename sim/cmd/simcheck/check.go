package main

import (
	"sync"
	"encoding/json"
	"fmt"
	"os"
	"path/filepath"
	"sort"
	"strings"
	"time"

	"simverif/cf"
	"simverif/gen"
)

type tierBudget struct {
	runs   int
	wall   time.Duration
	selfN  int
}

type propSpec struct {
	id        string
	level     string
	quick     tierBudget
	thorough  tierBudget
	race      bool // thorough tier also runs a -race slice
	real      []string
	stub      []string
	assume    []string
	rule      string
}

var defaultReal = []string{"package sarama from /repo's working tree (client, broker connection, producer/consumer/group/offset manager/admin, all codecs)", "go1.26.8 runtime scheduler, channels, timers, maps (seeded through the overlay)"}
var defaultStub = []string{"Kafka cluster = single-threaded model inside the simulation kernel (metadata, logs, idempotence state, coordinator, admin)", "TCP = in-memory net.Conn via Config.Net.Proxy.Dialer", "time = synctest fake clock"}

func specFor(prop string) *propSpec {
	// The quick tier is bounded by a run count (so that two runs with the same VERIF_SEED do the same work whatever
	// the load of the machine: about 10-40 s on 16 idle cores); its wall-clock cap is only a safety stop.
	quickRuns := 20000
	switch prop {
	case "C07", "C08", "C13":
		quickRuns = 12000 // group scenarios cost 3-5 ms of CPU per run
	case "C15":
		quickRuns = 16000
	case "C12":
		quickRuns = 30000 // six scenario families share the budget
	}
	s := &propSpec{id: prop, level: "exploration", quick: tierBudget{quickRuns, 150 * time.Second, 6}, thorough: tierBudget{400000, 14 * time.Minute, 24}, real: defaultReal, stub: defaultStub}
	s.rule = "cases are generated from VERIF_SEED (configuration x workload x fault rules x schedule mode); one case = one fresh worker process = one exactly replayable execution; distinct = distinct hash of the observable trace (wire frames + application-visible events with fake-time stamps); non-trivial = at least one fault fired or at least two application operations overlapped"
	if f := specTweaks[prop]; f != nil {
		f(s)
	}
	return s
}

var specTweaks = map[string]func(*propSpec){}

type agg struct {
	runs, ok, leaks, inconclusive, violRuns, otherPropRuns int
	simUs     int64
	events    int64
	draws, yields uint64
	faults    map[string]int
	probes    map[string]int
	modes     map[string]int
	scen      map[string]int
	traces    map[string]bool
	nontrivial map[string]bool
	leakFrames map[string]int
	otherRules map[string]int
	samples   []any
	c12Bases, c12FullyEnumerated int
	slow int // runs that exceeded the real-time limit twice
}

func newAgg() *agg {
	return &agg{faults: map[string]int{}, probes: map[string]int{}, modes: map[string]int{}, scen: map[string]int{}, traces: map[string]bool{}, nontrivial: map[string]bool{}, leakFrames: map[string]int{}, otherRules: map[string]int{}}
}

func (a *agg) add(prop string, o *outcome) {
	a.runs++
	a.modes[o.c.Sched.Mode]++
	a.scen[o.c.Scenario]++
	if o.res == nil {
		return
	}
	r := o.res
	a.simUs += r.SimTimeUs
	a.events += int64(r.Events)
	a.draws += r.Draws
	a.yields += r.Yields
	for k, v := range r.Faults {
		a.faults[k] += v
	}
	for k, v := range r.Probes {
		a.probes[k] += v
	}
	a.traces[r.TraceHash] = true
	if r.Nontrivial {
		a.nontrivial[r.TraceHash] = true
	}
	switch r.Verdict {
	case "ok":
		a.ok++
	case "leak":
		a.leaks++
		for _, f := range r.Leaks {
			a.leakFrames[f]++
		}
	case "inconclusive":
		a.inconclusive++
	}
	other := false
	for _, v := range r.Violations {
		if !strings.HasPrefix(v.Rule, prop+".") {
			a.otherRules[v.Rule]++
			other = true
		}
	}
	if other {
		a.otherPropRuns++
	}
	if len(a.samples) < 3 && r.Nontrivial {
		a.samples = append(a.samples, map[string]any{"seed": o.c.Seed, "scenario": o.c.Scenario, "config": o.c.Config, "cluster": o.c.Cluster, "workload_ops": len(o.c.Workload), "workload_head": head(o.c.Workload, 4), "faults": o.c.Faults, "sched": o.c.Sched, "net": o.c.Net, "verdict": r.Verdict, "trace_hash": r.TraceHash, "faults_fired": r.Faults})
	}
}

func head(w []cf.Op, n int) []cf.Op {
	if len(w) > n {
		return w[:n]
	}
	return w
}

func cmdCheck(prop, tier string) int {
	t0 := time.Now()
	spec := specFor(prop)
	budget := spec.quick
	if tier == "thorough" {
		budget = spec.thorough
	}
	if s := os.Getenv("VERIF_RUNS"); s != "" {
		fmt.Sscan(s, &budget.runs)
	}
	if s := os.Getenv("VERIF_WALL_S"); s != "" {
		var n int
		fmt.Sscan(s, &n)
		budget.wall = time.Duration(n) * time.Second
	}
	baseSeed := seedFromEnv(20260925)
	bin := buildWorker(false)
	known := loadKnown()
	par := 16

	fmt.Printf("simcheck property=%s tier=%s VERIF_SEED=%d budget=%d runs / %v\n", prop, tier, baseSeed, budget.runs, budget.wall)

	// 1. mini determinism self-test: same case, two fresh processes, same trace hash
	{
		var cases []*cf.Case
		rs := &cf.Rng{S: baseSeed ^ 0x5e1f}
		for i := 0; i < budget.selfN; i++ {
			c := gen.Generate(prop, rs.U64())
			cases = append(cases, c, c.Clone())
		}
		hashes := map[uint64][]string{}
		infra := ""
		runMany(bin, cases, par, func(o *outcome) bool {
			if o.infra != "" {
				infra = o.infra
				return false
			}
			h := "crash"
			if o.res != nil {
				h = o.res.TraceHash + "/" + o.res.Verdict
			}
			hashes[o.c.Seed] = append(hashes[o.c.Seed], h)
			return true
		})
		if infra != "" {
			die2("self-test: %s", infra)
		}
		for seed, hs := range hashes {
			if len(hs) == 2 && hs[0] != hs[1] {
				die2("determinism self-test failed: seed %d gave %s and %s in two fresh processes", seed, hs[0], hs[1])
			}
		}
	}

	a := newAgg()
	seenKnown := map[string]bool{}
	knownNotes := map[string]string{}

	// 2. pinned cases of known findings of this property
	for _, f := range known.Findings {
		if f.Property != prop || f.Case == "" {
			continue
		}
		c, err := loadCase(filepath.Join(verifDir, f.Case))
		if err != nil {
			die2("known case %s: %v", f.Case, err)
		}
		o := execCase(bin, c, false)
		if o.infra != "" {
			die2("known case %s: %s", f.Case, o.infra)
		}
		hit := false
		for _, v := range violationsFor(prop, o) {
			if m := known.match(c, v); m != nil && m.ID == f.ID {
				hit = true
			}
		}
		if hit {
			seenKnown[f.ID] = true
		} else {
			knownNotes[f.ID] = "pinned case " + f.Case + " no longer fails"
		}
		if uv := unknownViolation(known, prop, o, nil); uv != nil {
			return reportViolation(bin, known, prop, tier, baseSeed, o, uv, a, t0, spec)
		}
	}

	// 3. exploration
	rs := &cf.Rng{S: baseSeed}
	var bad *outcome
	var badV *cf.Violation
	infra := ""
	deadline := t0.Add(budget.wall)
	batch := 256
	for a.runs < budget.runs && time.Now().Before(deadline) && bad == nil && infra == "" {
		var cases []*cf.Case
		if prop == "C12" {
			cases = c12Batch(bin, rs, tier, a)
		} else {
			for i := 0; i < batch && a.runs+len(cases) < budget.runs; i++ {
				cases = append(cases, gen.Generate(prop, rs.U64()))
			}
		}
		runMany(bin, cases, par, func(o *outcome) bool {
			if o.infra != "" && strings.Contains(o.infra, "wall clock") {
				// a run that exceeds the real-time limit twice (the second time with a three-fold limit) decides
				// nothing: it is counted, kept for inspection and never turned into a verdict; only a systematic
				// slow-down is an infrastructure failure
				a.slow++
				a.runs++
				a.inconclusive++
				if a.slow <= 5 {
					os.MkdirAll(filepath.Join(outDir, "replays"), 0o755)
					if data, err := json.MarshalIndent(o.c, "", " "); err == nil {
						os.WriteFile(filepath.Join(outDir, "replays", fmt.Sprintf("slow-%s-%d.json", prop, o.c.Seed)), data, 0o644)
					}
				}
				if a.slow > 10 && a.slow*50 > a.runs {
					infra = fmt.Sprintf("%d of %d runs exceeded the real-time limit (last seed %d)", a.slow, a.runs, o.c.Seed)
					return false
				}
				return time.Now().Before(deadline)
			}
			if o.infra != "" {
				infra = o.infra + fmt.Sprintf(" (seed %d)", o.c.Seed)
				return false
			}
			a.add(prop, o)
			if uv := unknownViolation(known, prop, o, seenKnown); uv != nil {
				if bad == nil || o.c.Seed < bad.c.Seed {
					bad, badV = o, uv
				}
				return false
			}
			if len(violationsFor(prop, o)) > 0 {
				a.violRuns++
			}
			return time.Now().Before(deadline)
		})
	}
	if infra != "" {
		die2("%s", infra)
	}
	if bad != nil {
		return reportViolation(bin, known, prop, tier, baseSeed, bad, badV, a, t0, spec)
	}
	for _, f := range known.Findings {
		if f.Property != prop {
			continue
		}
		if seenKnown[f.ID] {
			fmt.Printf("KNOWN-FINDING: property=%s %s [%s]\n", prop, f.What, f.ID)
		} else if n := knownNotes[f.ID]; n != "" {
			fmt.Printf("note: known finding %s: %s\n", f.ID, n)
		}
	}
	if a.runs > 0 && a.inconclusive*50 > a.runs {
		fmt.Printf("WARNING: %d of %d runs inconclusive (> 2%%)\n", a.inconclusive, a.runs)
	}
	writeEvidence(spec, tier, baseSeed, a, 0, t0, seenKnown)
	fmt.Printf("OK property=%s runs=%d distinct_traces=%d nontrivial=%d leaks=%d inconclusive=%d known_hits=%d wall=%.1fs\n", prop, a.runs, len(a.traces), len(a.nontrivial), a.leaks, a.inconclusive, a.violRuns, time.Since(t0).Seconds())
	return 0
}

func loadCase(path string) (*cf.Case, error) {
	data, err := os.ReadFile(path)
	if err != nil {
		return nil, err
	}
	var c cf.Case
	if err := json.Unmarshal(data, &c); err != nil {
		return nil, err
	}
	return &c, nil
}

func reportViolation(bin string, known *knownFile, prop, tier string, baseSeed uint64, o *outcome, v *cf.Violation, a *agg, t0 time.Time, spec *propSpec) int {
	fmt.Printf("violation candidate: seed=%d rule=%s\n  %s\n", o.c.Seed, v.Rule, strings.ReplaceAll(v.Detail, "\n", "\n  "))
	if o.spin != "" {
		// a busy loop costs four minutes of real time per execution (two attempts): the case is reported as found,
		// without minimisation; both attempts already agreed on where it spins
		c := o.c.Clone()
		c.Expect = &cf.Expect{Rule: v.Rule, Detail: v.Detail}
		os.MkdirAll(filepath.Join(outDir, "replays"), 0o755)
		path := filepath.Join(outDir, "replays", fmt.Sprintf("%s-%d.json", prop, o.c.Seed))
		data, _ := json.MarshalIndent(c, "", " ")
		os.WriteFile(path, data, 0o644)
		writeEvidence(spec, tier, baseSeed, a, 1, t0, nil)
		fmt.Printf("rule: %s\n%s\n", v.Rule, v.Detail)
		fmt.Printf("not minimised (each execution runs into the real-time limit twice); replay with: ./check replay %s\n", path)
		fmt.Printf("VIOLATION property=%s replay=%s\n", prop, path)
		return 1
	}
	min := minimise(bin, known, prop, o.c, v.Rule)
	// verify replay in a fresh process
	o1 := execCase(bin, min, false)
	if o1.infra != "" {
		die2("replay verification: %s", o1.infra)
	}
	var got *cf.Violation
	for _, x := range violationsFor(prop, o1) {
		if x.Rule == v.Rule && known.match(min, x) == nil {
			xx := x
			got = &xx
			break
		}
	}
	if got == nil {
		die2("minimised case does not reproduce rule %s (determinism broken?)", v.Rule)
	}
	th := ""
	if o1.res != nil {
		th = o1.res.TraceHash
	}
	o2 := execCase(bin, min, false)
	th2 := ""
	if o2.res != nil {
		th2 = o2.res.TraceHash
	}
	if th != th2 {
		os.MkdirAll(filepath.Join(outDir, "replays"), 0o755)
		data, _ := json.MarshalIndent(min, "", " ")
		os.WriteFile(filepath.Join(outDir, "replays", fmt.Sprintf("nondet-%s-%d.json", prop, o.c.Seed)), data, 0o644)
		die2("replay of the minimised case is not exact: trace %s vs %s (case kept under replays/nondet-*)", th, th2)
	}
	min.Expect = &cf.Expect{Rule: got.Rule, TraceHash: th, Detail: got.Detail}
	os.MkdirAll(filepath.Join(outDir, "replays"), 0o755)
	path := filepath.Join(outDir, "replays", fmt.Sprintf("%s-%d.json", prop, o.c.Seed))
	data, _ := json.MarshalIndent(min, "", " ")
	os.WriteFile(path, data, 0o644)
	writeEvidence(spec, tier, baseSeed, a, 1, t0, nil)
	fmt.Printf("rule: %s\n%s\n", got.Rule, got.Detail)
	if got.Class != "" {
		fmt.Printf("class: %s\n", got.Class)
	}
	fmt.Printf("minimised: %d workload ops, %d fault rules, sched=%s; replay with: ./check replay %s\n", len(min.Workload), len(min.Faults), min.Sched.Mode, path)
	fmt.Printf("VIOLATION property=%s replay=%s\n", prop, path)
	return 1
}

func cmdReplay(path string) int {
	c, err := loadCase(path)
	if err != nil {
		die2("%v", err)
	}
	bin := buildWorker(false)
	o := execCase(bin, c, true)
	if o.infra != "" {
		die2("%s", o.infra)
	}
	if o.res != nil {
		for _, l := range o.res.Trace {
			fmt.Println(l)
		}
		fmt.Printf("verdict=%s traceHash=%s events=%d simTimeUs=%d\n", o.res.Verdict, o.res.TraceHash, o.res.Events, o.res.SimTimeUs)
		if len(o.res.Leaks) > 0 {
			fmt.Printf("leaks: %v\n", o.res.Leaks)
		}
	}
	if o.crash != "" {
		fmt.Println(firstLines(o.crash, 60))
	}
	vs := violationsFor(c.Property, o)
	for _, v := range vs {
		fmt.Printf("rule %s [%s]\n  %s\n", v.Rule, v.Class, strings.ReplaceAll(v.Detail, "\n", "\n  "))
	}
	if c.Expect != nil {
		ok := false
		for _, v := range vs {
			if v.Rule == c.Expect.Rule {
				ok = true
			}
		}
		hashOK := o.res != nil && o.res.TraceHash == c.Expect.TraceHash
		fmt.Printf("expected rule %s reproduced=%v traceHash match=%v\n", c.Expect.Rule, ok, hashOK)
		if ok {
			fmt.Printf("VIOLATION property=%s replay=%s\n", c.Property, path)
			return 1
		}
		return 0
	}
	if len(vs) > 0 {
		fmt.Printf("VIOLATION property=%s replay=%s\n", c.Property, path)
		return 1
	}
	return 0
}

func cmdSelftest(n int) int {
	bin := buildWorker(false)
	props := []string{}
	for p := range knownProps() {
		props = append(props, p)
	}
	sort.Strings(props)
	var cases []*cf.Case
	rs := &cf.Rng{S: seedFromEnv(99)}
	for _, p := range props {
		for i := 0; i < n; i++ {
			c := gen.Generate(p, rs.U64())
			for k := 0; k < 3; k++ {
				cases = append(cases, c.Clone())
			}
		}
	}
	type key struct {
		p string
		s uint64
	}
	hashes := map[key]map[string]int{}
	bad := 0
	for _, par := range []int{2, 8, 16} {
		runMany(bin, cases, par, func(o *outcome) bool {
			h := "crash/" + o.infra
			if o.res != nil {
				h = o.res.TraceHash + "/" + o.res.Verdict
			}
			k := key{o.c.Property, o.c.Seed}
			if hashes[k] == nil {
				hashes[k] = map[string]int{}
			}
			hashes[k][h]++
			return true
		})
	}
	for k, m := range hashes {
		if len(m) != 1 {
			bad++
			fmt.Printf("NONDETERMINISTIC %s seed=%d: %v\n", k.p, k.s, m)
		}
	}
	fmt.Printf("selftest: %d cases x 9 fresh-process executions (3 each at 2, 8 and 16 workers in parallel), %d nondeterministic\n", len(hashes), bad)
	if bad > 0 {
		return 2
	}
	return 0
}

func knownProps() map[string]bool {
	m := map[string]bool{}
	for _, p := range []string{"C01", "C02", "C03", "C04", "C05", "C06", "C07", "C08", "C11", "C13", "C14", "C15", "C16", "C17", "C18", "C19", "C20"} {
		m[p] = true
	}
	for p := range extraProps {
		m[p] = true
	}
	return m
}

var extraProps = map[string]bool{}

func writeEvidence(spec *propSpec, tier string, seed uint64, a *agg, violations int, t0 time.Time, seenKnown map[string]bool) {
	wall := time.Since(t0).Seconds()
	samples := a.samples
	if len(samples) == 0 {
		samples = []any{"no non-trivial sample recorded"}
	}
	var kf []string
	for id := range seenKnown {
		kf = append(kf, id)
	}
	sort.Strings(kf)
	var warn []string
	for _, p := range spec.wantProbes() {
		if a.probes[p] == 0 {
			warn = append(warn, "rare-condition probe never hit: "+p)
		}
	}
	cov := map[string]any{
		"evaluations":         a.runs,
		"runs_over_real_time_limit": a.slow,
		"distinct_nontrivial": len(a.nontrivial),
		"rule":                spec.rule,
		"samples":             samples,
		"exhaustive":          false,
		"runs":                a.runs,
		"runs_per_hour":       int(float64(a.runs) / wall * 3600),
		"sim_time_s":          float64(a.simUs) / 1e6,
		"kernel_events":       a.events,
		"faults_fired":        a.faults,
		"sched_modes":         a.modes,
		"scenarios":           a.scen,
		"draws":               a.draws,
		"yields":              a.yields,
		"distinct_traces":     len(a.traces),
		"rare_probes":         a.probes,
		"probe_warnings":      warn,
		"leaks":               a.leaks,
		"leak_frames":         a.leakFrames,
		"inconclusive":        a.inconclusive,
		"runs_matching_known_findings": a.violRuns,
		"known_findings_seen": kf,
		"other_property_rules_seen": a.otherRules,
		"c12_base_cases":      a.c12Bases,
		"c12_base_cases_with_every_close_point_enumerated": a.c12FullyEnumerated,
		"real_components":     spec.real,
		"stub_components":     spec.stub,
	}
	ev := map[string]any{
		"property_id": spec.id,
		"tier":        tier,
		"seed":        int64(seed & 0x7fffffffffffffff),
		"level":       spec.level,
		"coverage":    cov,
		"assumptions": append([]string{"the model cluster is faithful to Kafka's protocol rules listed in DESIGN.md Appendix A", "non-preemptive scheduling: goroutines switch only at blocking operations and seeded yields"}, spec.assume...),
		"wall_s":      wall,
		"violations":  violations,
	}
	os.MkdirAll(filepath.Join(outDir, "evidence"), 0o755)
	data, _ := json.MarshalIndent(ev, "", " ")
	os.WriteFile(filepath.Join(outDir, "evidence", spec.id+".json"), data, 0o644)
}

func (s *propSpec) wantProbes() []string { return probeWants[s.id] }

var probeWants = map[string][]string{
	"C01": {"message-resent", "fresh-input-while-partition-retrying"},
	"C02": {"message-resent", "fresh-input-while-partition-retrying"},
	"C05": {"message-resent", "idempotent-duplicate-deduplicated", "identical-batch-resent"},
	"C03": {"partial-trailing-message", "reader-stalled-beyond-max-processing-time", "offset-out-of-range-shutdown"},
	"C06": {"mark-or-reset-while-commit-in-flight"},
	"C07": {"session-expired", "handler-returned-early", "committed-offset-out-of-range-fallback"},
	"C13": {"sticky-premise-met"},
	"C15": {"response-served-while-several-calls-in-progress"},
}

// c12Batch: C12 enumerates shutdown points. A base case of one scenario family is run once without a
// close point to count its model events K; then the same case is re-run with close-at(k) for every
// k <= K (thorough) or a sample of them (quick), each with delta 0 and "half the gap to the next event".
func c12Batch(bin string, rs *cf.Rng, tier string, a *agg) []*cf.Case {
	var out []*cf.Case
	tweak := func(b *cf.Case) bool {
		b.Property = "C12"
		if b.Config.Idempotent {
			return false // the idempotent producer's retry path is judged (and found wanting) under C01/C05
		}
		if f := b.Config.Flush; f.FreqMs == 0 && (f.Messages > 0 || f.Bytes > 0) {
			b.Config.Flush.FreqMs = 5 // size trigger without frequency: known finding KF-C01-flushhold
		}
		return true
	}
	// base cases, dry-run in parallel to count their model events
	var bases []*cf.Case
	for len(bases) < 16 {
		fam := []string{"C01", "C01", "C03", "C03", "C07", "C07", "C06", "C15"}[rs.Intn(8)]
		base := gen.Generate(fam, rs.U64())
		if tweak(base) {
			bases = append(bases, base)
		}
	}
	events := map[uint64]int{}
	var mu sync.Mutex
	runMany(bin, bases, 16, func(o *outcome) bool {
		if o.res != nil {
			mu.Lock()
			events[o.c.Seed] = o.res.Events
			mu.Unlock()
		}
		return true
	})
	for _, base := range bases {
		K, ok := events[base.Seed]
		if !ok {
			continue
		}
		a.c12Bases++
		if K > 400 {
			K = 400
		}
		var ks []int
		if tier == "thorough" {
			for k := 1; k <= K; k++ {
				ks = append(ks, k)
			}
			a.c12FullyEnumerated++
		} else {
			for i := 0; i < 6 && K > 0; i++ {
				ks = append(ks, 1+rs.Intn(K))
			}
		}
		out = append(out, base.Clone()) // shutdown at the natural end of the workload is a close point too
		for _, k := range ks {
			for _, half := range []bool{false, true} {
				c := base.Clone()
				c.CloseAt = &cf.CloseAt{K: k, Half: half}
				out = append(out, c)
			}
		}
		// ... and so it is for further histories that are not enumerated: shutting down right after the last
		// operation catches components mid-retry, backing off or in an election window
		for i := 0; i < 16; i++ {
			f2 := []string{"C01", "C02", "C04", "C03", "C03", "C03", "C07", "C06"}[rs.Intn(8)]
			b := gen.Generate(f2, rs.U64())
			if tweak(b) {
				out = append(out, b)
			}
		}
	}
	return out
}

func init() {
	specTweaks["C12"] = func(s *propSpec) {
		s.level = "fault_enumeration"
		s.rule = "a base case of one scenario family (producer, consumer, group, offset manager, client) is generated from VERIF_SEED and run once to count its model events K; then the same case is re-run with 'close everything, in the documented order, right after event k' for every k <= K (thorough) or 6 sampled k (quick), each at delta 0 and at half the fake-time gap to the next event; beside each enumerated base, sixteen more generated histories are run with shutdown at the natural end of their workload only; distinct = distinct observable trace; non-trivial = a fault fired or several application goroutines were active"
	}
}

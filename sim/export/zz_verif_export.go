package sarama

import "bytes"

// VerifDecodeRequest decodes one length-prefixed request frame.
func VerifDecodeRequest(frame []byte) (corr int32, clientID string, body interface{}, err error) {
	req, _, err := decodeRequest(bytes.NewReader(frame))
	if err != nil {
		return 0, "", nil, err
	}
	return req.correlationID, req.clientID, req.body, nil
}

type verifEncoder interface{ encode(pe packetEncoder) error }

// VerifEncodeResponse encodes header (v0) + body.
func VerifEncodeResponse(corr int32, body interface{}) ([]byte, error) {
	b, err := encode(body.(encoder), nil)
	if err != nil {
		return nil, err
	}
	hdr := make([]byte, 8)
	n := uint32(len(b) + 4)
	hdr[0], hdr[1], hdr[2], hdr[3] = byte(n>>24), byte(n>>16), byte(n>>8), byte(n)
	hdr[4], hdr[5], hdr[6], hdr[7] = byte(uint32(corr)>>24), byte(uint32(corr)>>16), byte(uint32(corr)>>8), byte(uint32(corr))
	return append(hdr, b...), nil
}

// VerifRecords returns "key=value" strings of the records a produce request carries for a partition.
func VerifRecords(r *ProduceRequest, topic string, partition int32) []string {
	recs, ok := r.records[topic][partition]
	if !ok {
		return nil
	}
	var out []string
	if recs.RecordBatch != nil {
		for _, rec := range recs.RecordBatch.Records {
			out = append(out, string(rec.Key)+"="+string(rec.Value))
		}
	}
	if recs.MsgSet != nil {
		for _, mb := range recs.MsgSet.Messages {
			out = append(out, string(mb.Msg.Key)+"="+string(mb.Msg.Value))
		}
	}
	return out
}

// VerifBatchInfo exposes idempotence fields of the record batch a produce request carries for a partition.
func VerifBatchInfo(r *ProduceRequest, topic string, partition int32) (pid int64, epoch int16, firstSeq int32, n int, ok bool) {
	recs, found := r.records[topic][partition]
	if !found || recs.RecordBatch == nil {
		return 0, 0, 0, 0, false
	}
	b := recs.RecordBatch
	return b.ProducerID, b.ProducerEpoch, b.FirstSequence, len(b.Records), true
}

func VerifOffsetRequestTime(r *OffsetRequest, topic string, partition int32) int64 {
	return r.blocks[topic][partition].time
}

func VerifFetchOffset(r *FetchRequest, topic string, partition int32) (int64, int32) {
	b := r.blocks[topic][partition]
	return b.fetchOffset, b.maxBytes
}

func VerifSetHWM(fr *FetchResponse, topic string, partition int32, hwm int64) {
	fr.Blocks[topic][partition].HighWaterMarkOffset = hwm
}

func VerifFixFirstOffset(fr *FetchResponse, topic string, partition int32, first int64) {
	b := fr.Blocks[topic][partition]
	for _, rs := range b.RecordsSet {
		if rs.RecordBatch != nil {
			rs.RecordBatch.FirstOffset = first
			for i, rec := range rs.RecordBatch.Records {
				rec.OffsetDelta = int64(i)
			}
		}
	}
}

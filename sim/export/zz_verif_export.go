package sarama

import (
	"bytes"
	"sort"
)

// This file is injected into package sarama by the simulation build overlay (it is not part of
// /repo). It exposes sarama's server-side codecs (request decoders / response encoders, used in
// production only by MockBroker) and a few accessors to unexported request fields.

// VerifDecodeRequest decodes one length-prefixed request frame.
func VerifDecodeRequest(frame []byte) (corr int32, clientID string, body interface{}, err error) {
	req, _, err := decodeRequest(bytes.NewReader(frame))
	if err != nil {
		return 0, "", nil, err
	}
	return req.correlationID, req.clientID, req.body, nil
}

// VerifEncodeResponse encodes header + body like MockBroker does.
func VerifEncodeResponse(corr int32, body interface{}) ([]byte, error) {
	pb := body.(protocolBody)
	b, err := encode(pb, nil)
	if err != nil {
		return nil, err
	}
	hv := pb.headerVersion()
	hl := 8
	if hv >= 1 {
		hl = 9
	}
	hdr := make([]byte, hl)
	n := uint32(len(b) + hl - 4)
	hdr[0], hdr[1], hdr[2], hdr[3] = byte(n>>24), byte(n>>16), byte(n>>8), byte(n)
	c := uint32(corr)
	hdr[4], hdr[5], hdr[6], hdr[7] = byte(c>>24), byte(c>>16), byte(c>>8), byte(c)
	return append(hdr, b...), nil
}

type VerifTP struct {
	Topic     string
	Partition int32
	Offset    int64
	Metadata  string
	Timestamp int64
	Time      int64
}

func VerifOffsetRequestBlocks(r *OffsetRequest) []VerifTP {
	var out []VerifTP
	for t, ps := range r.blocks {
		for p, b := range ps {
			out = append(out, VerifTP{Topic: t, Partition: p, Time: b.time})
		}
	}
	sortTP(out)
	return out
}

func VerifOffsetCommitBlocks(r *OffsetCommitRequest) []VerifTP {
	var out []VerifTP
	for t, ps := range r.blocks {
		for p, b := range ps {
			out = append(out, VerifTP{Topic: t, Partition: p, Offset: b.offset, Metadata: b.metadata, Timestamp: b.timestamp})
		}
	}
	sortTP(out)
	return out
}

func VerifOffsetFetchPartitions(r *OffsetFetchRequest) []VerifTP {
	var out []VerifTP
	for t, ps := range r.partitions {
		for _, p := range ps {
			out = append(out, VerifTP{Topic: t, Partition: p})
		}
	}
	sortTP(out)
	return out
}

func sortTP(x []VerifTP) {
	sort.Slice(x, func(i, j int) bool {
		if x[i].Topic != x[j].Topic {
			return x[i].Topic < x[j].Topic
		}
		return x[i].Partition < x[j].Partition
	})
}

// VerifBroker builds a Broker value (id, addr) for response encoding.
func VerifBroker(id int32, addr string) *Broker { return &Broker{id: id, addr: addr} }

// VerifDecodeMemberMetadata / VerifDecodeAssignment decode the opaque group protocol blobs.
func VerifDecodeMemberMetadata(b []byte) (*ConsumerGroupMemberMetadata, error) {
	m := new(ConsumerGroupMemberMetadata)
	err := decode(b, m)
	return m, err
}

func VerifDecodeAssignment(b []byte) (*ConsumerGroupMemberAssignment, error) {
	m := new(ConsumerGroupMemberAssignment)
	if len(b) == 0 {
		return m, nil
	}
	err := decode(b, m)
	return m, err
}

// VerifReassignBlocks lists the (topic, partition, replicas) entries of an AlterPartitionReassignments request.
func VerifReassignBlocks(r *AlterPartitionReassignmentsRequest) map[string]map[int32][]int32 {
	out := map[string]map[int32][]int32{}
	for t, ps := range r.blocks {
		out[t] = map[int32][]int32{}
		for p, b := range ps {
			out[t][p] = b.replicas
		}
	}
	return out
}

// VerifCustomFallbackPartitioner builds a hash partitioner with the WithCustomFallbackPartitioner option
// (its argument type is unexported, so only in-package code can use the option at all).
func VerifCustomFallbackPartitioner(topic string) Partitioner {
	fallback := NewHashPartitioner(topic).(*hashPartitioner)
	return NewCustomPartitioner(WithCustomFallbackPartitioner(fallback))(topic)
}

// VerifProducerEpoch reads the current producer epoch of an idempotent producer's transaction manager
// (-1 for anything else). Observation only.
func VerifProducerEpoch(p interface{}) int {
	switch x := p.(type) {
	case *asyncProducer:
		if x.txnmgr == nil {
			return -1
		}
		return int(x.txnmgr.producerEpoch)
	case *syncProducer:
		return VerifProducerEpoch(x.producer)
	}
	return -1
}

// VerifStickyUserData decodes the user data a sticky-strategy member sends with JoinGroup: its previous assignment
// and the generation it was made in (-1 when absent). ok is false when the bytes are not sticky user data.
func VerifStickyUserData(b []byte) (topics map[string][]int32, generation int, ok bool) {
	if len(b) == 0 {
		return nil, -1, false
	}
	ud, err := deserializeTopicPartitionAssignment(b)
	if err != nil {
		return nil, -1, false
	}
	topics = map[string][]int32{}
	for _, tp := range ud.partitions() {
		topics[tp.Topic] = append(topics[tp.Topic], tp.Partition)
	}
	generation = -1
	if ud.hasGeneration() {
		generation = ud.generation()
	}
	return topics, generation, true
}

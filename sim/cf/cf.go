// Package cf defines the case file (= replay file) and the worker result, shared by the
// simulation worker and the orchestrator. It must not import sarama.
package cf

import "encoding/json"

// Rng is splitmix64; every generator choice comes from one of these seeded from VERIF_SEED.
type Rng struct{ S uint64 }

func (r *Rng) U64() uint64 {
	r.S += 0x9e3779b97f4a7c15
	z := r.S
	z = (z ^ (z >> 30)) * 0xbf58476d1ce4e5b9
	z = (z ^ (z >> 27)) * 0x94d049bb133111eb
	return z ^ (z >> 31)
}
func (r *Rng) Intn(n int) int {
	if n <= 0 {
		return 0
	}
	return int(r.U64() % uint64(n))
}
func (r *Rng) Bool() bool           { return r.U64()&1 == 1 }
func (r *Rng) Chance(p float64) bool { return float64(r.U64()>>11)/float64(1<<53) < p }
func (r *Rng) Range(lo, hi int) int { return lo + r.Intn(hi-lo+1) }
func (r *Rng) Pick(xs ...int) int   { return xs[r.Intn(len(xs))] }
func (r *Rng) PickS(xs ...string) string {
	return xs[r.Intn(len(xs))]
}
func (r *Rng) Fork() *Rng { return &Rng{S: r.U64()} }

type Sched struct {
	Mode   string `json:"mode"` // canonical | coin | yield
	YieldN int    `json:"yieldN,omitempty"`
	Seed   uint64 `json:"seed"`
}

type Net struct {
	Model string `json:"model"` // const | uniform | heavy | zero
	MinUs int    `json:"minUs"`
	MaxUs int    `json:"maxUs"`
	Seed  uint64 `json:"seed"`
}

type Flush struct {
	Messages    int `json:"messages,omitempty"`
	Bytes       int `json:"bytes,omitempty"`
	FreqMs      int `json:"freqMs,omitempty"`
	MaxMessages int `json:"maxMessages,omitempty"`
}

// Config: union of the knobs of all scenarios; zero = sarama default unless stated.
type Config struct {
	Version         string `json:"version"`
	RetryMax        int    `json:"retryMax"`
	BackoffMs       int    `json:"backoffMs"`
	Flush           Flush  `json:"flush"`
	MaxMessageBytes int    `json:"maxMessageBytes,omitempty"`
	MaxRequestSize  int    `json:"maxRequestSize,omitempty"`
	MaxOpenRequests int    `json:"maxOpenRequests,omitempty"`
	ChanBuf         int    `json:"chanBuf"`
	Acks            int    `json:"acks"` // 0 none, 1 local, -1 all
	Codec           string `json:"codec,omitempty"`
	CodecLevel      int    `json:"codecLevel,omitempty"`
	Idempotent      bool   `json:"idempotent,omitempty"`
	Partitioner     string `json:"partitioner,omitempty"`
	Interceptors    int    `json:"interceptors,omitempty"`
	PanicIcpt       int    `json:"panicIcpt,omitempty"` // index+1 of an interceptor that panics (0 = none)
	Sync            bool   `json:"sync,omitempty"`
	CloseMode       string `json:"closeMode,omitempty"` // async | close
	MetaRetryMax    int    `json:"metaRetryMax,omitempty"`
	MetaBackoffMs   int    `json:"metaBackoffMs,omitempty"`
	MetaRefreshMs   int    `json:"metaRefreshMs,omitempty"`
	MetaFull        bool   `json:"metaFull,omitempty"`
	ReadTimeoutMs   int    `json:"readTimeoutMs,omitempty"`
	DialTimeoutMs   int    `json:"dialTimeoutMs,omitempty"`

	// consumer
	FetchDefault     int    `json:"fetchDefault,omitempty"`
	FetchMax         int    `json:"fetchMax,omitempty"`
	FetchMin         int    `json:"fetchMin,omitempty"`
	MaxWaitMs        int    `json:"maxWaitMs,omitempty"`
	MaxProcessingMs  int    `json:"maxProcessingMs,omitempty"`
	ConsBackoffMs    int    `json:"consBackoffMs,omitempty"`
	ReturnErrors     bool   `json:"returnErrors,omitempty"`
	ReadCommitted    bool   `json:"readCommitted,omitempty"`
	ConsInterceptors int    `json:"consInterceptors,omitempty"`
	// offsets / group
	AutoCommit       bool   `json:"autoCommit,omitempty"`
	AutoCommitMs     int    `json:"autoCommitMs,omitempty"`
	OffsetsRetryMax  int    `json:"offsetsRetryMax,omitempty"`
	RetentionMs      int    `json:"retentionMs,omitempty"`
	InitialOldest    bool   `json:"initialOldest,omitempty"`
	Strategy         string `json:"strategy,omitempty"`
	SessionMs        int    `json:"sessionMs,omitempty"`
	HeartbeatMs      int    `json:"heartbeatMs,omitempty"`
	RebalanceMs      int    `json:"rebalanceMs,omitempty"`
	RebRetryMax      int    `json:"rebRetryMax,omitempty"`
	RebBackoffMs     int    `json:"rebBackoffMs,omitempty"`
	// admin
	AdminRetryMax  int `json:"adminRetryMax,omitempty"`
	AdminBackoffMs int `json:"adminBackoffMs,omitempty"`
	AdminTimeoutMs int `json:"adminTimeoutMs,omitempty"`
	// generic extra knobs
	X map[string]int `json:"x,omitempty"`
}

type Part struct {
	ID       int32   `json:"id"`
	Leader   int32   `json:"leader"`
	Replicas []int32 `json:"replicas,omitempty"`
}
type Topic struct {
	Name       string `json:"name"`
	Partitions []Part `json:"partitions"`
}

// Rec is one record of a pre-loaded log (consumer scenarios).
type Rec struct {
	ID      int  `json:"id"`               // unique id; key/value derived from it
	KeyLen  int  `json:"k"`                // -1 nil
	ValLen  int  `json:"v"`                // -1 nil
	Headers int  `json:"h,omitempty"`      // number of headers (v2 only)
	TsMs    int64 `json:"ts,omitempty"`
}

// Batch is one stored batch (record batch v2, or a legacy message / compressed wrapper).
type Batch struct {
	Base    int64  `json:"base"` // base offset
	Recs    []Rec  `json:"recs"`
	Deltas  []int  `json:"deltas,omitempty"` // offset deltas (compaction gaps); default 0..n-1
	LastDelta int  `json:"lastDelta,omitempty"` // last offset delta if larger than the last record's (compacted tail)
	Codec   string `json:"codec,omitempty"`
	PID     int64  `json:"pid,omitempty"` // producer id; -1/0 none
	Txn     bool   `json:"txn,omitempty"`
	Control string `json:"control,omitempty"` // "" | commit | abort
	AtUs    int64  `json:"atUs,omitempty"`    // appended during the run at this time (0 = preloaded)
	AppendTsMs int64 `json:"appendTsMs,omitempty"` // > 0: the topic uses LogAppendTime; the broker stamped the batch with this time
}

type Log struct {
	Topic     string  `json:"topic"`
	Partition int32   `json:"partition"`
	Magic     int     `json:"magic"` // 0,1,2
	LogStart  int64   `json:"logStart"`
	Batches   []Batch `json:"batches"`
	AbsInner  bool    `json:"absInner,omitempty"` // magic1 wrappers keep absolute inner offsets (written by old clients)
}

type Cluster struct {
	Brokers    []int32 `json:"brokers"`
	Controller int32   `json:"controller,omitempty"`
	Topics     []Topic `json:"topics"`
	Logs       []Log   `json:"logs,omitempty"`
	Coordinator int32  `json:"coordinator,omitempty"`
}

// Op is one application action. Which fields matter depends on Op.
type Op struct {
	Op        string `json:"op"`
	Actor     int    `json:"actor,omitempty"` // feeder / caller / reader / member index
	Topic     string `json:"topic,omitempty"`
	Partition int32  `json:"partition,omitempty"`
	ID        int    `json:"id,omitempty"`
	KeyID     int    `json:"keyId,omitempty"` // key = "k<KeyID>" padded to KeyLen; KeyLen -1 nil
	KeyLen    int    `json:"keyLen,omitempty"`
	ValLen    int    `json:"valLen,omitempty"`
	Headers   int    `json:"headers,omitempty"`
	TsMs      int64  `json:"tsMs,omitempty"`
	ThinkUs   int64  `json:"thinkUs,omitempty"` // sleep before the op
	Offset    int64  `json:"offset,omitempty"`
	N         int    `json:"n,omitempty"`
	Arg       string `json:"arg,omitempty"`
	Args      []string `json:"args,omitempty"`
	Ints      []int    `json:"ints,omitempty"`
}

type When struct {
	API       string `json:"api,omitempty"`
	Broker    int32  `json:"broker,omitempty"` // 0 = any
	Nth       int    `json:"nth,omitempty"`    // 1-based among matching requests
	Topic     string `json:"topic,omitempty"`  // only requests naming this topic/partition match
	Partition int32  `json:"partition,omitempty"`
	HasPart   bool   `json:"hasPart,omitempty"`
	AtUs      int64  `json:"atUs,omitempty"` // timed fault (API empty)
}

type Fault struct {
	When      When   `json:"when"`
	Do        string `json:"do"`
	Code      int    `json:"code,omitempty"`
	Append    bool   `json:"append,omitempty"` // for errcode/silence: the broker applied the request first
	Topic     string `json:"topic,omitempty"`
	Partition int32  `json:"partition,omitempty"`
	AllParts  bool   `json:"allParts,omitempty"`
	To        int32  `json:"to,omitempty"`
	Broker    int32  `json:"brokerArg,omitempty"`
	Us        int64  `json:"us,omitempty"`
	N         int    `json:"n,omitempty"`
	Arg       string `json:"arg,omitempty"`
	SlowUs    int64  `json:"slowUs,omitempty"` // errcode on Produce: the (error) response is held back this long
}

type CloseAt struct {
	K    int  `json:"k"`
	Half bool `json:"half,omitempty"` // wait half of the fake-time gap to the next model event first
}

type Expect struct {
	Rule      string `json:"rule"`
	TraceHash string `json:"traceHash"`
	Detail    string `json:"detail,omitempty"`
}

type Case struct {
	V        int     `json:"v"`
	Property string  `json:"property"`
	Scenario string  `json:"scenario"`
	Seed     uint64  `json:"seed"`
	Sched    Sched   `json:"sched"`
	Net      Net     `json:"net"`
	Config   Config  `json:"config"`
	Cluster  Cluster `json:"cluster"`
	Workload []Op    `json:"workload"`
	Faults   []Fault `json:"faults"`
	MaxSimMs int64   `json:"maxSimMs,omitempty"` // fake-time cap (liveness bound)
	CloseAt  *CloseAt `json:"closeAt,omitempty"` // C12: shut everything down right after the K-th model event
	Expect   *Expect `json:"expect,omitempty"`
}

func (c *Case) Clone() *Case {
	b, _ := json.Marshal(c)
	var d Case
	_ = json.Unmarshal(b, &d)
	return &d
}

// Violation is one failed oracle rule.
type Violation struct {
	Rule   string `json:"rule"` // e.g. C01.lost-outcome
	Detail string `json:"detail"`
	Class  string `json:"class,omitempty"` // classification hints for known-finding predicates
}

// Result is the single JSON line a worker prints.
type Result struct {
	Verdict    string         `json:"verdict"` // ok | violation | hang | leak | inconclusive | infra
	Violations []Violation    `json:"violations,omitempty"`
	TraceHash  string         `json:"traceHash"`
	Events     int            `json:"events"`
	SimTimeUs  int64          `json:"simTimeUs"`
	Draws      uint64         `json:"draws"`
	Yields     uint64         `json:"yields"`
	Faults     map[string]int `json:"faultsFired,omitempty"`
	Probes     map[string]int `json:"probes,omitempty"`
	Leaks      []string       `json:"leaks,omitempty"`
	Ops        int            `json:"ops"`
	Nontrivial bool           `json:"nontrivial"`
	Note       string         `json:"note,omitempty"`
	Dump       string         `json:"dump,omitempty"`
	Trace      []string       `json:"trace,omitempty"`
	History    json.RawMessage `json:"history,omitempty"`
}

module simverif

go 1.26

require (
	github.com/Shopify/sarama v0.0.0
	github.com/anishathalye/porcupine v1.3.0
	github.com/eapache/go-xerial-snappy v0.0.0-20180814174437-776d5712da21
	github.com/klauspost/compress v1.12.2
	github.com/pierrec/lz4 v2.6.0+incompatible
	github.com/rcrowley/go-metrics v0.0.0-20201227073835-cf1acfcdf475
)

require (
	github.com/davecgh/go-spew v1.1.1 // indirect
	github.com/eapache/go-resiliency v1.2.0 // indirect
	github.com/eapache/queue v1.1.0 // indirect
	github.com/golang/snappy v0.0.3 // indirect
	github.com/hashicorp/go-uuid v1.0.2 // indirect
	github.com/jcmturner/aescts/v2 v2.0.0 // indirect
	github.com/jcmturner/dnsutils/v2 v2.0.0 // indirect
	github.com/jcmturner/gofork v1.0.0 // indirect
	github.com/jcmturner/gokrb5/v8 v8.4.2 // indirect
	github.com/jcmturner/rpc/v2 v2.0.3 // indirect
	golang.org/x/crypto v0.0.0-20210616213533-5ff15b29337e // indirect
	golang.org/x/net v0.0.0-20210614182718-04defd469f4e // indirect
)

replace github.com/Shopify/sarama => /repo

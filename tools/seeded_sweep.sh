#!/bin/sh
# Runs every stored seeded change against the quick check of the property it targets (apply to /repo, check, revert)
# (now: in a scratch worktree; /repo is untouched) and records the outcome in seeded/<id>/detect.json. Usage: tools/seeded_sweep.sh [wall_s] ['id id ...']
cd /verif || exit 2
WALL=${1:-60}
ONLY=$2   # optional: space-separated ids to refresh
for d in seeded/*/; do
  id=$(basename $d); prop=${id%-*}
  if [ -n "$ONLY" ]; then case " $ONLY " in *" $id "*) ;; *) continue ;; esac; fi
  out=$(./mutcheck.sh /verif/${d}patch.diff $prop $WALL 2>&1)
  rule=$(echo "$out" | grep "^rule:" | head -1 | sed 's/^rule: //')
  rc=$(echo "$out" | grep "^exit=" | sed 's/exit=//')
  printf '{"property":"%s","check":"./check %s quick (VERIF_WALL_S=%s)","exit":%s,"rule":"%s"}\n' "$prop" "$prop" "$WALL" "${rc:-2}" "$rule" > $d/detect.json
  echo "$id exit=${rc:-?} rule=$rule"
done
git -C /repo status --short | head -3

#!/bin/sh
# usage: tools/mutreplay.sh <abs patch.diff> <case.json>  -- replay one case file against a scratch worktree carrying the patch
P=$1; CASE=$2
WT=/tmp/mutreplay-wt.$$
B=/verif/build/mut.$$
git -C /repo worktree add --detach $WT HEAD >/dev/null 2>&1 || { echo "worktree failed"; exit 2; }
( cd $WT && git apply "$P" ) || { echo "patch does not apply"; git -C /repo worktree remove --force $WT; exit 2; }
cd /verif
VERIF_MUT_REPO=$WT VERIF_MUT_BUILD=$B ./check replay $CASE
RC=$?
git -C /repo worktree remove --force $WT
rm -rf $B
echo "exit=$RC"

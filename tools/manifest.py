#!/usr/bin/env python3
"""Regenerates /verif/MANIFEST.json from the table below (keeps it valid at all times)."""
import json
TECH = "deterministic simulation with fault injection (seeded schedule/fault search over replayable cases)"
COMMON = "Model cluster fidelity (DESIGN.md Appendix A) is assumed; scheduling is non-preemptive between blocking operations; a clean batch is evidence over the sampled space, not proof."
checks = {
 "C02": ("exploration", "Seeded search over fault scripts x schedules x retry budgets for the async producer against a model broker; per-partition log order and success offsets are judged against submission order per submitting goroutine; failing cases are minimised and replay exactly.", "Retry.Max=0 reordering after an abandoned broker worker is a listed known finding. " + COMMON),
 "C03": ("exploration", "Seeded search over generated logs (message set v0/v1, record batch v2, compressed wrappers with relative/absolute inner offsets, compaction gaps, log-start > 0, appends during the run), start offsets, fetch sizes, reader paces and fetch faults; every delivery is compared field by field with the model log as a prefix check, plus bounded liveness after faults stop.", "Fetch framing comes from the model's own encoder, independent of sarama's codecs; Consumer.Fetch.Max is 0 or larger than any batch. " + COMMON),
 "C04": ("exploration", "Every success is looked up in the model log (offset, key, value, headers, timestamp); the model broker validates produce payloads with its own codec (CRC, lengths, deltas) for each version x codec; every log record must map to a submitted message.", "Acked appends are never lost; the independent codec is trusted. " + COMMON),
 "C06": ("exploration", "OffsetManager with 1-4 partition managers, 1-3 application goroutines issuing Mark/Reset/NextOffset (unique or all-empty metadata), auto-commit ticker or one manual committer, Close after or during marking, against a model coordinator with per-commit faults (error classes, missing block, drops, silence, coordinator move, load in progress); every committed pair must have been marked, stored offsets regress only after a reset, Mark/Reset/NextOffset histories are checked for linearizability (porcupine), and after a quiet Close/Commit the store equals the final position.", "The close-not-latest/lost-mark premise (coordinator accepted the final attempts) is decided from the model's request log and client-visible transport errors. " + COMMON),
 "C11": ("exploration", "Consumer scenario over generated transactional logs (overlapping, back-to-back, aborted-then-committed transactions, control batches, open transactions/LSO) with the aborted index served in random order and fetch boundaries inside transactions; the delivered sequence is compared with the committed/uncommitted view of the model log.", "The model computes LSO and aborted index as brokers do. " + COMMON),
 "C14": ("exploration", "One Broker connection, 1-8 concurrent callers issuing token-echoing requests, server behaviours (delay, wrong correlation id, truncated frame, oversized length, short header, abrupt close, reset, silence, stall), Close racing with calls; each call must get its own token or an error, nothing after the first connection fault may succeed or hang, and requests on the wire are counted at every write.", "MaxOpenRequests+1 on the wire is a listed known finding. " + COMMON),
 "C15": ("exploration", "Client against scripted metadata views (topics/partitions/leaders/brokers appearing, vanishing, erroring, readdressed) with concurrent readers, explicit and background refreshes and unreachable brokers; read results are checked for linearizability (porcupine) against a reference view folded from the responses the model served; refresh must succeed while a healthy seed exists.", "Which call requested a response is not observable: a served response is forced visible only when it reached a healthy connection and no background refresher runs; set-aside brokers are tolerated after the first unreachability event; the Broker.Open race is a listed known finding. " + COMMON),
 "C16": ("exploration", "Every produce request seen by the model broker is checked against Flush.MaxMessages, MaxMessageBytes and MaxRequestSize; oversize messages must fail without reaching the wire; fault-free configurations with sizes straddling each limit.", "The flush-timing facet is judged as eventual flush. " + COMMON),
 "C17": ("exploration", "The configured partitioner is wrapped by an oracle that records each call and checks the built-in contracts; routing is checked against the metadata views the model served (all vs writable partitions, leaderless partitions, bad custom choices).", "The contract half is observed only on the keys/counts the simulation generates. " + COMMON),
 "C18": ("exploration", "Producer and consumer scenarios with chains of 1-3 trail-recording, header-mutating (optionally panicking) interceptors under fault scripts that re-dispatch messages and reader stalls beyond MaxProcessingTime; each message's trail must be exactly [0..n-1].", COMMON),
}
pending = {}
na = {
 "C09": "pure function of the encoded value (encode/decode round-trip): no schedule, clock, fault or peer for a simulator to control; see DESIGN.md section 7",
 "C10": "pure function of a byte string (decode of malformed input): input-space fuzzing, not simulation; the stream/fault facets are decided under C14 (garbage frames on a live connection) and C03 (bit flips in checksummed fetch data); see DESIGN.md section 7",
}
import sys
exec(open('/verif/tools/manifest_extra.py').read()) if __import__('os').path.exists('/verif/tools/manifest_extra.py') else None
props = [json.loads(l)["id"] for l in open('/verif/properties.jsonl')]
m = {
 "version": 1,
 "setup_cmd": "./setup.sh",
 "hooks": {"guard": "verif", "enable": "no source hooks exist in /repo: the simulation worker is built with `go1.26.8 build -overlay` (seeded runtime files + one export file injected into package sarama by the overlay); the default build of /repo is untouched", "baseline_off_cmd": "cd /repo && GOFLAGS=-mod=mod GOPROXY=off GOSUMDB=off go test -vet=off -count=1 -timeout 25m ./...", "source_commits": [], "add_only": True},
 "engines": [{"name": "simverif", "path": "/verif/sim", "serves_properties": sorted(checks), "kind_free_text": "deterministic simulation with fault injection: unmodified sarama inside one synctest bubble under a go1.26.8 runtime whose goroutine/select/timer/map randomness is seeded through a build overlay; model Kafka cluster as kernel events; one OS process per case; seeded search over configurations x workloads x fault rules x schedules; minimised replay files"}],
 "checks": [],
 "notes": "see DESIGN.md; every check rebuilds the worker from /repo's working tree; known findings are in known_findings.json; seeded property-breaking changes used for sensitivity are under seeded/",
 "not_applicable": [],
}
for pid in sorted(checks):
    lvl, text, note = checks[pid]
    m["checks"].append({"property_id": pid, "quick_cmd": "./check %s quick" % pid, "thorough_cmd": "./check %s thorough" % pid, "evidence_file": "/verif/evidence/%s.json" % pid, "replay_cmd_template": "./check replay {path}", "engine": "simverif", "level_claimed": {"category": lvl, "text": text, "design_ref": "DESIGN.md section 6, " + pid}, "level_note": note, "technique": TECH})
for pid in props:
    if pid in checks:
        continue
    reason = na.get(pid) or "not claimed yet: the scenario for this property is still being built in this session (no check registered until it runs clean on the unchanged tree)"
    m["not_applicable"].append({"property_id": pid, "reason": reason})
json.dump(m, open('/verif/MANIFEST.json', 'w'), indent=1)
print("manifest:", len(m["checks"]), "checks,", len(m["not_applicable"]), "not claimed")

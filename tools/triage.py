#!/usr/bin/env python3
"""usage: tools/triage.py <prop> <n> [first_seed] [--bin path] -- development aid: runs n generated cases of a
property against the shared worker binary (run `./check build` first) and tallies violations by (rule, class)."""
import json, subprocess, sys, collections
from concurrent.futures import ThreadPoolExecutor
prop, n = sys.argv[1], int(sys.argv[2])
first = int(sys.argv[3]) if len(sys.argv) > 3 and not sys.argv[3].startswith('--') else 1
binp = '/verif/build/simworker'
if '--bin' in sys.argv: binp = sys.argv[sys.argv.index('--bin')+1]
def one(seed):
    c = subprocess.run(['/verif/build/simcheck', 'gen', prop, str(seed)], capture_output=True).stdout
    r = subprocess.run([binp], input=c, capture_output=True, env={'GOTRACEBACK': 'all', 'GOMAXPROCS': '1'})
    try:
        res = json.loads(r.stdout.splitlines()[0])
    except Exception:
        return seed, None
    return seed, res
tally = collections.Counter(); ex = {}
with ThreadPoolExecutor(16) as tp:
    for seed, res in tp.map(one, range(first, first+n)):
        if res is None:
            tally[('CRASH', '')] += 1; ex.setdefault(('CRASH', ''), seed); continue
        for v in res.get('violations') or []:
            if not v['rule'].startswith(prop + '.'): continue
            k = (v['rule'], v.get('class', ''))
            tally[k] += 1; ex.setdefault(k, seed)
for k, c in sorted(tally.items(), key=lambda x: -x[1]):
    print(c, k[0], '[' + k[1] + ']', 'e.g. seed', ex[k])

#!/bin/sh
# usage: tools/store_seeded.sh <scratch id under /tmp/mut> <n> <seeded id> [wall_s]
# Confirms a sub-agent's change in a scratch worktree (suite passes with it, demo fails with it and passes without),
# runs the property's quick check against it (scratch worktree, /repo untouched) and stores it under seeded/<seeded id>.
SRCID=$1; N=$2; SID=$3; WALL=${4:-60}
PROP=${SID%-*}
SRC=/tmp/mut/$SRCID/MUTANT$N
[ -f $SRC/patch.diff ] || { echo "no $SRC/patch.diff"; exit 2; }
[ -f /tmp/confirm/$SRCID-$N.txt ] || /tmp/confirm/run.sh $SRCID $N
C=/tmp/confirm/$SRCID-$N.txt
if ! grep -q "SUITE_WITH_PATCH=pass" $C || ! grep -q "DEMO_WITH_PATCH=fail" $C || ! grep -q "DEMO_WITHOUT_PATCH=pass" $C; then echo "NOT CONFIRMED:"; cat $C; exit 1; fi
D=/verif/seeded/$SID
mkdir -p $D
cp $SRC/patch.diff $D/patch.diff
cp $SRC/demo_test.go $D/demo_test.go.txt
python3 - "$SRC/meta.json" "$C" "$D/meta.json" "$PROP" <<'PY'
import json,sys
src,conf,out,prop=sys.argv[1:5]
try: m=json.load(open(src))
except Exception as e: m={"summary":open(src).read()}
m["property"]=prop
m["author"]="independent sub-agent given only the property text and a scratch worktree (second wave: also told which mechanisms earlier changes had used)"
if "verified" in m: m["author_verification"]=m.pop("verified")
m["confirmed_by_me"]={"where":"scratch git worktree of /repo HEAD (with the fix: commits) under /tmp, removed afterwards",
 "commands":["git apply patch.diff","go build ./...","go test -vet=off -count=1 -timeout 25m ./...","copy demo_test.go into the package dir; go test -run '^(<demo tests>)$'","git checkout -- . ; same demo again"],
 "result":[l.strip() for l in open(conf) if "=" in l and not l.startswith("patch=")]}
json.dump(m,open(out,"w"),indent=1)
PY
out=$(/verif/mutcheck.sh $D/patch.diff $PROP $WALL 2>&1)
rule=$(echo "$out" | grep "^rule:" | head -1 | sed 's/^rule: //')
rc=$(echo "$out" | grep "^exit=" | sed 's/exit=//')
printf '{"property":"%s","check":"./check %s quick (VERIF_WALL_S=%s)","exit":%s,"rule":"%s"}\n' "$PROP" "$PROP" "$WALL" "${rc:-2}" "$rule" > $D/detect.json
echo "$SID exit=${rc:-?} rule=$rule"

#!/bin/sh
# Builds the framework offline from files on disk: overlay for the seeded go1.26.8 runtime,
# orchestrator, and a warm build of the simulation worker (the checks rebuild it from /repo anyway).
cd /verif || exit 2
export GOFLAGS=-mod=mod GOPROXY=off GOSUMDB=off GOTOOLCHAIN=local
GO=/opt/veriftools/go1.26.8/bin/go
mkdir -p build evidence replays
python3 simrt/gen.py /verif/build /repo /verif/sim/export/zz_verif_export.go || exit 2
( cd sim && $GO build -o /verif/build/simcheck ./cmd/simcheck ) || exit 2
/verif/build/simcheck build || exit 2
echo setup ok
